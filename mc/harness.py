"""Import the library under test from $VERIF_REPO (default /repo), own the environment.

* BLAS/OpenMP pinned to one thread (16 forked workers do the parallelism);
* `pkbar` (broken in this image: needs pkg_resources) is stubbed in sys.modules, not in the repo;
* stdout of the library (the non-leaf `.grad` warning, Trainer banners) is silenced by `quiet()`;
* the two global mode flags are reset between cases and the reset is *verified black-box*.
"""
import os, sys, types, io, contextlib, hashlib, json

for _v in ("OMP_NUM_THREADS", "OPENBLAS_NUM_THREADS", "MKL_NUM_THREADS", "NUMEXPR_NUM_THREADS"):
    os.environ.setdefault(_v, "1")

REPO = os.path.realpath(os.environ.get("VERIF_REPO", "/repo"))
SEED = int(os.environ.get("VERIF_SEED", "0") or 0)

class HarnessError(Exception):
    """The machinery itself is broken (never reported as a VIOLATION)."""

_sg = None

def _stub_pkbar():
    if "pkbar" in sys.modules and getattr(sys.modules["pkbar"], "_verif_stub", False):
        return
    m = types.ModuleType("pkbar")
    m._verif_stub = True
    class Kbar:
        def __init__(self, *a, **k): self.calls = []
        def update(self, *a, **k): self.calls.append(("update", a, k))
        def add(self, *a, **k): self.calls.append(("add", a, k))
    m.Kbar = Kbar
    sys.modules["pkbar"] = m

def load():
    """Import synapgrad from REPO (asserting the module path) and return the package."""
    global _sg
    if _sg is not None:
        return _sg
    _stub_pkbar()
    os.environ.setdefault("MPLBACKEND", "Agg")
    os.environ.setdefault("SYNAPGRAD_VERIF", "1")
    if sys.path[0] != REPO:
        sys.path.insert(0, REPO)
    import numpy as np
    np.seterr(all="ignore")
    import warnings
    warnings.filterwarnings("ignore")
    import synapgrad
    p = os.path.realpath(synapgrad.__file__)
    if not p.startswith(REPO + os.sep):
        raise HarnessError(f"synapgrad imported from {p}, expected under {REPO}")
    _sg = synapgrad
    return synapgrad

def tensor_module():
    load()
    return sys.modules["synapgrad.tensor"]

_torch = None
def torch():
    global _torch
    if _torch is None:
        import torch as _t
        _t.set_num_threads(1)
        try: _t.set_num_interop_threads(1)
        except Exception: pass
        _torch = _t
    return _torch

@contextlib.contextmanager
def quiet():
    old = sys.stdout
    sys.stdout = io.StringIO()
    try:
        yield
    finally:
        sys.stdout = old

def grad_mode_probe(P=None):
    """Black-box observation of the global grad mode, exactly as the property words it: does the
    result of an operation on a leaf that requires grad require grad?  `P` is a float leaf that was
    created with requires_grad=True while the mode was enabled."""
    sg = load()
    import numpy as np
    if P is None:
        P = sg.Tensor(np.array(1.0), requires_grad=True)
        if not P.requires_grad:
            return False
    return bool((P * 2.0).requires_grad)

def retain_mode_probe():
    """Black-box observation of the retain mode (an interior node created now, backward now):
    does the interior node keep its gradient?  Only meaningful while the grad mode is enabled."""
    sg = load()
    import numpy as np
    a = sg.Tensor(np.array([1.0, 2.0]), requires_grad=True)
    b = a * 2.0
    c = b * 3.0
    if not c.requires_grad:
        return None
    with quiet():
        c.backward(sg.Tensor(np.ones(2)))
        g = b.grad
    return g is not None

def reset_modes(verify=True):
    """Put the library's global modes back to their defaults (grad on, retain off)."""
    st = tensor_module()
    if hasattr(st, "gradient__"): st.gradient__ = True
    if hasattr(st, "retain_grads__"): st.retain_grads__ = False
    if verify:
        if not grad_mode_probe() or retain_mode_probe():
            raise HarnessError("cannot reset the library's global grad/retain modes to defaults")

def digest(obj):
    return hashlib.sha256(json.dumps(obj, sort_keys=True, default=str).encode()).hexdigest()[:16]

def jsonable(o):
    import numpy as np
    if isinstance(o, dict): return {str(k): jsonable(v) for k, v in o.items()}
    if isinstance(o, (list, tuple)): return [jsonable(v) for v in o]
    if isinstance(o, np.ndarray): return {"ndarray": o.tolist(), "dtype": str(o.dtype), "shape": list(o.shape)}
    if isinstance(o, np.generic): return o.item()
    if isinstance(o, slice): return {"slice": [o.start, o.stop, o.step]}
    if o is Ellipsis: return "..."
    if isinstance(o, (str, int, float, bool)) or o is None: return o
    if isinstance(o, type): return o.__name__
    return repr(o)
