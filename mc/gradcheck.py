"""Shared VJP oracle for C01/C02: full library Jacobian (backward for every basis vector of the output)
against the numerical Jacobian of the library's own float64 forward; bracket test at kinks/ties;
linearity in g; requires_grad subsets.

`runner(arrays, rg) -> (out Tensor, [operand Tensors])` builds a fresh graph on fresh Tensors.
`diff_idx` lists the operands that are differentiable inputs."""
import numpy as np
from . import harness, fd, values, lattice

FINE_RT, FINE_AT = 1e-7, 1e-9
COARSE_TOL = 2e-3

def _fwd(runner, arrays):
    out, _ = runner([np.asarray(a, dtype=np.float64) if np.asarray(a).dtype.kind == "f" else a for a in arrays], None)
    return np.asarray(out.data, dtype=np.float64)

def lib_jacobians(runner, arrays, diff_idx, m, out_shape, out_dtype):
    """rows[k][i, :] = grad of operand k for upstream basis vector e_i.  Raises on backward failure."""
    sg = harness.load()
    rows = {k: np.zeros((m, int(np.prod(np.shape(arrays[k]), dtype=int)))) for k in diff_idx}
    rg = [i in diff_idx for i in range(len(arrays))]
    for i in range(m):
        out, ts = runner(arrays, rg)
        g = np.zeros(out_shape, dtype=out_dtype); g.reshape(-1)[i] = 1.0
        out.backward(sg.Tensor(g))
        for k in diff_idx:
            gr = ts[k].grad
            if gr is None:
                raise AssertionError(f"operand {k} requires grad but has no .grad after backward")
            if tuple(gr.shape) != tuple(np.shape(arrays[k])):
                raise AssertionError(f"operand {k}: grad shape {gr.shape} != operand shape {np.shape(arrays[k])}")
            rows[k][i, :] = np.asarray(gr.data, dtype=np.float64).reshape(-1)
    return rows

def check(runner, arrays, diff_idx, name, kinks=False, subsets=True, max_m=None):
    """-> (violations, info).  kinks=True: operand values sit on ties/kinks -> bracket test."""
    sg = harness.load()
    viol = []
    def v(sym, detail): viol.append({"kind": f"{name}:{sym}", "detail": detail})
    try:
        out0, _ = runner(arrays, None)
    except harness.HarnessError:
        raise
    except Exception as e:
        return [], {"accepted": False, "why": f"{type(e).__name__}: {str(e)[:60]}"}
    y0 = np.asarray(out0.data)
    m = y0.size
    info = {"accepted": True, "m": m, "nonzero": False}
    if m == 0 or (max_m and m > max_m):
        return [], info
    if y0.dtype.kind == "f" and not np.all(np.isfinite(y0)):
        # e.g. a max-pooling window that lies entirely in the -inf padding: no derivative to speak of
        info["nonfinite_forward"] = True
        return [], info
    f = lambda xs: _fwd(runner, xs)
    try:
        rows = lib_jacobians(runner, arrays, diff_idx, m, y0.shape, y0.dtype if y0.dtype.kind == "f" else np.float64)
    except harness.HarnessError:
        raise
    except AssertionError as e:
        v("grad-missing-or-misshaped", str(e)); return viol, info
    except Exception as e:
        v("backward-raised", f"forward accepted, backward(g) raised {type(e).__name__}: {str(e)[:100]}"); return viol, info
    for k in diff_idx:
        Jl = rows[k]
        if np.any(Jl != 0): info["nonzero"] = True
        if not np.all(np.isfinite(Jl)):
            v("nonfinite-grad", f"operand {k}: non-finite gradient entries"); continue
        if kinks:
            x = np.asarray(arrays[k], dtype=np.float64)
            dirs = [np.eye(1, x.size, j).reshape(x.shape) for j in range(x.size)] + [np.ones(x.shape)]
            bad = None
            for d in dirs:
                dm, dp = fd.one_sided(f, arrays, k, d)
                lo, hi = np.minimum(dm, dp) - 1e-5, np.maximum(dm, dp) + 1e-5
                proj = Jl @ d.reshape(-1)
                if np.any(proj < lo) or np.any(proj > hi):
                    i = int(np.argmax((proj < lo) | (proj > hi)))
                    bad = f"operand {k}: <grad,d>={proj[i]:.6g} outside one-sided derivatives [{lo[i]:.6g},{hi[i]:.6g}] for output {i}"
                    break
            if bad: v("not-a-subgradient", bad)
            continue
        Jn = fd.jacobian(f, arrays, k)
        if fd.close(Jl, Jn, FINE_RT, FINE_AT):
            continue
        Jc = fd.jacobian_coarse(f, arrays, k)
        scale = max(1.0, float(np.max(np.abs(Jc))))
        err = float(np.max(np.abs(Jl - Jc)))
        if err <= COARSE_TOL * scale:
            info.setdefault("precision_limited", []).append(k)
            v("inexact-vjp", f"operand {k}: agrees with the numerical Jacobian only at float32 grade (max abs diff {np.max(np.abs(Jl - Jn)):.3g})")
        else:
            i, j = np.unravel_index(int(np.argmax(np.abs(Jl - Jn))), Jl.shape)
            v("wrong-vjp", f"operand {k}: d out[{i}]/d in[{j}] library {Jl[i, j]:.8g} vs numerical {Jn[i, j]:.8g} (max abs diff {np.max(np.abs(Jl - Jn)):.3g})")
    if viol:
        return viol, info
    info["rows"] = rows
    # linearity in g: all-ones and one dense mixed-sign g must give J^T g
    rg_all = [i in diff_idx for i in range(len(arrays))]
    for gname, g in (("ones", np.ones(y0.shape)), ("dense", values.dense_g(y0.shape))):
        out, ts = runner(arrays, rg_all)
        try:
            out.backward(sg.Tensor(np.asarray(g, dtype=y0.dtype if y0.dtype.kind == "f" else np.float64)))
        except Exception as e:
            v("backward-raised", f"backward({gname} g) raised {type(e).__name__}: {str(e)[:100]}"); break
        for k in diff_idx:
            exp = rows[k].T @ np.asarray(g, dtype=np.float64).reshape(-1)
            got = np.asarray(ts[k].grad.data, dtype=np.float64).reshape(-1)
            if not fd.close(got, exp, 1e-9, 1e-11):
                v("nonlinear-in-g", f"operand {k}: backward({gname} g) != J^T g (max diff {np.max(np.abs(got - exp)):.3g})")
    # every non-empty proper subset of operands requiring grad
    if subsets and len(diff_idx) > 1 and not viol:
        g = values.dense_g(y0.shape)
        for mask in lattice.nonempty_subsets(len(diff_idx)):
            if all(mask): continue
            rg = [False] * len(arrays)
            for b, k in zip(mask, diff_idx): rg[k] = b
            try:
                out, ts = runner(arrays, rg)
                out.backward(sg.Tensor(np.asarray(g, dtype=y0.dtype if y0.dtype.kind == "f" else np.float64)))
            except Exception as e:
                v("backward-raised", f"requires_grad={rg}: {type(e).__name__}: {str(e)[:100]}"); continue
            for b, k in zip(mask, diff_idx):
                gr = ts[k].grad
                if not b:
                    if gr is not None:
                        v("grad-on-operand-not-requiring-grad", f"requires_grad={rg}: operand {k} got a gradient")
                    continue
                exp = rows[k].T @ np.asarray(g, dtype=np.float64).reshape(-1)
                if gr is None or not fd.close(np.asarray(gr.data, dtype=np.float64).reshape(-1), exp, 1e-9, 1e-11):
                    v("subset-grad-differs", f"requires_grad={rg}: operand {k} gradient differs from the all-operands run")
    return viol, info


def check_layouts(runner_nocopy, arrays, diff_idx, name, rows, convs):
    """the same operands handed over in other memory layouts (no copy): one dense-g backward must give J^T g"""
    sg = harness.load()
    viol = []
    for lname, conv in convs:
        alt = [conv(np.array(a, copy=True)) if np.asarray(a).dtype.kind == "f" else np.array(a, copy=True) for a in arrays]
        rg = [i in diff_idx for i in range(len(arrays))]
        try:
            out, ts = runner_nocopy(alt, rg)
            g = values.dense_g(out.shape)
            out.backward(sg.Tensor(np.asarray(g, dtype=out.dtype if out.dtype.kind == "f" else np.float64)))
        except harness.HarnessError:
            raise
        except Exception as e:
            viol.append({"kind": f"{name}:layout-dependent", "detail": f"operands in {lname} layout: {type(e).__name__}: {str(e)[:80]}"}); continue
        for k in diff_idx:
            exp = rows[k].T @ np.asarray(g, dtype=np.float64).reshape(-1)
            gr = ts[k].grad
            if gr is None or not fd.close(np.asarray(gr.data, dtype=np.float64).reshape(-1), exp, 1e-9, 1e-11):
                viol.append({"kind": f"{name}:layout-dependent", "detail": f"operands in {lname} layout: gradient of operand {k} differs from the contiguous run"}); break
    return viol

def fortran(a):
    return np.asfortranarray(a) if a.ndim >= 2 else a

def strided(a):
    if a.ndim == 0: return a
    big = np.zeros(a.shape[:-1] + (2 * a.shape[-1],), dtype=a.dtype)
    big[..., ::2] = a
    return big[..., ::2]

LAYOUTS = (("fortran-order", fortran), ("strided-view", strided))


def check_interleaved(runner, arrays, diff_idx, name, rows, module_cls=None):
    """build the graph, then run the SAME operation (the same layer object when there is one) again on other inputs, and only
    then back-propagate the first graph: what a forward saved for its backward must not be disturbed by later calls."""
    sg = harness.load()
    viol = []
    rg = [i in diff_idx for i in range(len(arrays))]
    captured = []
    orig = None
    if module_cls is not None:
        orig = module_cls.__call__
        def hook(self, *a, **k):
            if not captured: captured.append((self, a, k))
            return orig(self, *a, **k)
        module_cls.__call__ = hook
    try:
        out, ts = runner(arrays, rg)
    finally:
        if orig is not None: module_cls.__call__ = orig
    try:
        if captured:
            mod, a, k = captured[0]
            a2 = [sg.Tensor(np.asarray(x.data) + (0.37 if np.asarray(x.data).dtype.kind == "f" else 0)) if isinstance(x, sg.Tensor) else x for x in a]
            with quiet_inner():
                mod(*a2, **k)
        else:
            runner([np.asarray(x) + 0.37 if np.asarray(x).dtype.kind == "f" else x for x in arrays], None)
    except harness.HarnessError:
        raise
    except Exception:
        pass           # the perturbed inputs may leave the op's domain (log of a negative number ...): irrelevant here
    disturb()
    g = values.dense_g(out.shape)
    try:
        out.backward(sg.Tensor(np.asarray(g, dtype=out.dtype if out.dtype.kind == "f" else np.float64)))
    except Exception as e:
        return [{"kind": f"{name}:second-call-disturbs-first-graph", "detail": f"backward of the first graph raised after a second call: {type(e).__name__}: {str(e)[:80]}"}]
    for k_ in diff_idx:
        exp = rows[k_].T @ np.asarray(g, dtype=np.float64).reshape(-1)
        gr = ts[k_].grad
        if gr is None or not fd.close(np.asarray(gr.data, dtype=np.float64).reshape(-1), exp, 1e-9, 1e-11):
            viol.append({"kind": f"{name}:second-call-disturbs-first-graph", "detail": f"gradient of operand {k_} of the first graph changes when the same "
                         "operation is applied to other inputs before backward"}); break
    return viol

import contextlib
@contextlib.contextmanager
def quiet_inner():
    yield


def disturb():
    """a fixed battery of OTHER operations (forward and backward) that share helpers with many ops (window placement, unbroadcast,
    im2col, reductions): run between the forward and the backward of the graph under test"""
    sg = harness.load(); F = sg.nn.functional
    T = lambda shape, salt=0: sg.Tensor(values.generic(shape, salt=salt + 40), requires_grad=True)
    try:
        for out in (F.conv2d(T((1, 2, 3, 3)), T((2, 2, 2, 2), 1), None, stride=1, padding=1),
                    F.conv1d(T((2, 1, 4)), T((1, 1, 2), 2), T((1,), 3), stride=2, padding=1, dilation=1),
                    F.max_pool2d(T((1, 1, 4, 4)), 2, padding=1), F.avg_pool1d(T((1, 2, 5)), 2, stride=1, padding=1),
                    F.unfold(T((1, 1, 3, 3)), (2, 2), padding=1), F.fold(T((1, 4, 4)), (3, 3), (2, 2)),
                    F.batch_norm(T((3, 2)), None, None, None, None, True), F.linear(T((2, 3)), T((2, 3), 5), T((2,), 6)),
                    F.softmax(T((2, 3)), 1), (T((2, 3)) * T((3,), 7)).sum(dim=(0, -1)), T((3, 2)).transpose(0, 1).reshape((6,)).max()):
            out.backward(sg.Tensor(np.ones(out.shape)))
    except harness.HarnessError:
        raise
    except Exception:
        pass


def check_twice(runner, arrays, diff_idx, name, rows):
    """two backward calls over ONE graph with different upstream gradients: leaves accumulate J^T g1 + J^T g2 - what the forward
    saved for backward must survive the first backward"""
    sg = harness.load()
    rg = [i in diff_idx for i in range(len(arrays))]
    out, ts = runner(arrays, rg)
    g1 = values.dense_g(out.shape); g2 = values.dense_g(out.shape, salt=5) * 0.5 - 0.25
    dt = out.dtype if out.dtype.kind == "f" else np.float64
    try:
        out.backward(sg.Tensor(np.asarray(g1, dtype=dt)))
        out.backward(sg.Tensor(np.asarray(g2, dtype=dt)))
    except harness.HarnessError:
        raise
    except Exception as e:
        return [{"kind": f"{name}:second-backward-raised", "detail": f"{type(e).__name__}: {str(e)[:80]}"}]
    for k in diff_idx:
        exp = rows[k].T @ (np.asarray(g1, dtype=np.float64) + np.asarray(g2, dtype=np.float64)).reshape(-1)
        gr = ts[k].grad
        if gr is None or not fd.close(np.asarray(gr.data, dtype=np.float64).reshape(-1), exp, 1e-9, 1e-11):
            return [{"kind": f"{name}:second-backward-differs", "detail": f"operand {k}: after two backward calls over the same graph the gradient is not "
                     "J^T g1 + J^T g2 (state saved by the forward was changed by the first backward)"}]
    return []


def check_freeze(apply, arrays, diff_idx, name, rows):
    """backward, then switch requires_grad off on some operands (their .grad stays), then a new forward/backward through the same
    tensors: the frozen operands are outside the graph now - their gradients must not move; the others accumulate"""
    if len(diff_idx) < 2:
        return []
    sg = harness.load()
    viol = []
    for keep in (diff_idx[0], diff_idx[-1]):
        ts = [sg.Tensor(np.array(a, copy=True), requires_grad=(i in diff_idx)) for i, a in enumerate(arrays)]
        try:
            out = apply(ts)
            g = values.dense_g(out.shape)
            gt = lambda: sg.Tensor(np.asarray(g, dtype=out.dtype if out.dtype.kind == "f" else np.float64))
            out.backward(gt())
            snap = {k: np.asarray(ts[k].grad.data).tobytes() for k in diff_idx}
            for k in diff_idx:
                if k != keep: ts[k].requires_grad = False
            out2 = apply(ts)
            out2.backward(gt())
        except harness.HarnessError:
            raise
        except Exception as e:
            viol.append({"kind": f"{name}:freeze-then-backward-raised", "detail": f"{type(e).__name__}: {str(e)[:80]}"}); continue
        for k in diff_idx:
            gr = ts[k].grad
            if k != keep:
                if gr is None or np.asarray(gr.data).tobytes() != snap[k]:
                    viol.append({"kind": f"{name}:frozen-operand-grad-changed", "detail": f"operand {k} was switched to requires_grad=False after a backward; "
                                 "a later backward through the same tensors changed its .grad although it is outside the graph"}); break
            else:
                exp = 2 * (rows[k].T @ np.asarray(g, dtype=np.float64).reshape(-1))
                if gr is None or not fd.close(np.asarray(gr.data, dtype=np.float64).reshape(-1), exp, 1e-9, 1e-11):
                    viol.append({"kind": f"{name}:freeze-then-backward-wrong", "detail": f"operand {k} (still requiring grad) did not accumulate J^T g twice"}); break
        if viol: break
    return viol


def check_embedded(apply, arrays, diff_idx, name):
    """the operation inside a larger DAG, decided differentially against the operation on its own (whose VJP C01/C02 decide):
    every differentiable operand is an interior node (leaf * 1.0) that ALSO feeds a sibling branch, the operation is applied twice
    to the same operand tensors, and the first result is consumed twice.  With G = G1 + G2 + G3:
        leaf_k.grad  ==  (grad of operand k when the operation alone is back-propagated with G)  +  W_k
    in both construction orders; retained interior gradients are the sums over their consumers."""
    sg = harness.load()
    viol = []
    def v(sym, detail):
        if all(x["kind"] != f"{name}:{sym}" for x in viol): viol.append({"kind": f"{name}:{sym}", "detail": detail})
    mk = lambda: [sg.Tensor(np.array(a, copy=True), requires_grad=(i in diff_idx)) for i, a in enumerate(arrays)]
    try:
        ts0 = mk(); out0 = apply(ts0)
    except harness.HarnessError:
        raise
    except Exception:
        return [], False
    y = np.asarray(out0.data)
    if y.dtype.kind != "f" or y.size == 0 or not np.all(np.isfinite(y)) or not out0.requires_grad:
        return [], False
    dt = y.dtype
    G1 = np.asarray(values.dense_g(y.shape), dtype=dt); G2 = np.asarray(values.dense_g(y.shape, salt=5) * 0.5 - 0.25, dtype=dt)
    G3 = np.asarray(values.dense_g(y.shape, salt=9) * 0.25 + 0.125, dtype=dt)
    W = {k: np.asarray(values.dense_g(np.shape(arrays[k]), salt=20 + k), dtype=np.asarray(arrays[k]).dtype) for k in diff_idx}
    try:
        out0.backward(sg.Tensor(G1 + G2 + G3))
        plain = {k: np.asarray(ts0[k].grad.data, dtype=np.float64) for k in diff_idx}
    except harness.HarnessError:
        raise
    except Exception:
        return [], False           # C01/C02 report a failing plain backward
    for order in ("sides-first", "sides-last"):
        L = mk()
        try:
            pre = [(t * 1.0) if i in diff_idx else t for i, t in enumerate(L)]
            sides = {}
            if order == "sides-first":
                for k in diff_idx: sides[k] = pre[k] * sg.Tensor(W[k])
                oa = apply(pre); ob = apply(pre)
            else:
                ob = apply(pre); oa = apply(pre)
                for k in diff_idx: sides[k] = pre[k] * sg.Tensor(W[k])
            for k in diff_idx: pre[k].retain_grad()
            oa.retain_grad()
            r = (oa * sg.Tensor(G1)).sum() + (ob * sg.Tensor(G3)).sum() + (oa * sg.Tensor(G2)).sum()
            for k in diff_idx: r = r + sides[k].sum()
            r.backward()
        except harness.HarnessError:
            raise
        except Exception as e:
            v("embedded-raised", f"{order}: the operation alone works, inside a DAG (interior operands, result used twice): {type(e).__name__}: {str(e)[:80]}")
            continue
        for k in diff_idx:
            exp = plain[k] + np.asarray(W[k], dtype=np.float64)
            for what, t in (("leaf", L[k]), ("interior operand", pre[k])):
                gr = t.grad
                got = None if gr is None else np.asarray(gr.data, dtype=np.float64)
                if got is None or got.shape != exp.shape or not fd.close(got.reshape(-1), exp.reshape(-1), 1e-9, 1e-11):
                    v("embedded-grad-differs", f"{order}: {what} {k}: gradient inside the DAG {None if got is None else got.reshape(-1)[:4]} != "
                      f"gradient of the operation alone under G1+G2+G3 plus the sibling branch {exp.reshape(-1)[:4]}")
        gr = oa.grad
        if oa is ob or any(oa is p_ for p_ in pre):
            continue        # an identity operation may return its operand (Dropout in eval mode): the result is then not a node of its own
        if gr is None or not fd.close(np.asarray(gr.data, dtype=np.float64).reshape(-1), (G1.astype(np.float64) + G2).reshape(-1), 1e-12, 1e-12):
            v("embedded-result-grad", f"{order}: retained gradient of the twice-consumed result is not G1 + G2")
    return viol, True
