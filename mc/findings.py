"""Known-findings matching. /verif/known_findings.json is read-only at run time.

entry: {"id", "property", "status": "open", "kind": <violation kind>, "match": <expr over the case
descriptor, builtin-free>, "what": <text>}.  A violation is suppressed only when an *open* entry of
the same property has the same kind and its predicate is true on the violating case.  "fixed"
lines (`fixed: property=<id> <commit> <what failed>`) suppress nothing."""
import json, os

PATH = os.path.join(os.path.dirname(os.path.dirname(os.path.abspath(__file__))), "known_findings.json")

class _NS(dict):
    def __missing__(self, k):
        return None

def load():
    if not os.path.exists(PATH):
        return []
    d = json.load(open(PATH))
    return [f for f in d.get("findings", []) if f.get("status") == "open"]

_SAFE = {"len": len, "any": any, "all": all, "abs": abs, "min": min, "max": max, "tuple": tuple, "list": list,
         "isinstance": isinstance, "int": int, "float": float, "str": str, "set": set, "sorted": sorted, "sum": sum,
         "True": True, "False": False, "None": None}

def matches(entry, pid, v):
    if entry.get("property") != pid or entry.get("kind") != v.get("kind"):
        return False
    expr = entry.get("match", "True")
    case = v.get("case")
    ns = _NS(_SAFE)
    if isinstance(case, dict):
        ns.update(case)
    ns["case"] = case
    ns["detail"] = v.get("detail", "")
    try:
        return bool(eval(expr, {"__builtins__": {}}, ns))
    except Exception:
        return False

def split(pid, violations):
    """-> (new_violations, {finding_id: (entry, [violations])})"""
    entries = load()
    new, known = [], {}
    for v in violations:
        for e in entries:
            if matches(e, pid, v):
                known.setdefault(e["id"], (e, []))[1].append(v)
                break
        else:
            new.append(v)
    return new, known
