"""Model-checking machinery for the synapgrad properties (see /verif/DESIGN.md)."""
