"""Bounded enumerators for argument spaces."""
import itertools
import numpy as np

def shapes(R, D=(1, 2, 3)):
    out = [()]
    for r in range(1, R + 1):
        out += list(itertools.product(D, repeat=r))
    return out

def dims(ndim):
    return list(range(-ndim, ndim))

def signed_dim_tuples(ndim):
    """every non-empty subset of axes with every positive/negative spelling per axis"""
    out = []
    for k in range(1, ndim + 1):
        for sub in itertools.combinations(range(ndim), k):
            for c in itertools.product(*[(d, d - ndim) for d in sub]):
                out.append(tuple(c))
                if k >= 2: out.append(tuple(reversed(c)))      # the order in which a caller lists the axes carries no meaning
    return out

def broadcast_shape(a, b):
    try:
        return tuple(np.broadcast_shapes(tuple(a), tuple(b)))
    except ValueError:
        return None

def nonempty_subsets(n):
    return [tuple(bool((m >> i) & 1) for i in range(n)) for m in range(1, 1 << n)]

def conv_out(L, k, s, p, d):
    return (L + 2 * p - d * (k - 1) - 1) // s + 1

def geom1d(Ls, ks=(1, 2, 3), ss=(1, 2, 3), ps=(0, 1, 2), ds=(1, 2), need_output=True):
    out = []
    for L, k, s, p, d in itertools.product(Ls, ks, ss, ps, ds):
        o = conv_out(L, k, s, p, d)
        if (o >= 1) == need_output and (need_output or True):
            out.append((L, k, s, p, d))
    return out
