"""CLI:  /venv/bin/python -m mc.run <ID> [--tier quick|thorough] [--replay <file>]

exit 0: property held on everything explored (known findings are listed as KNOWN-FINDING lines);
exit 1: at least one `VIOLATION property=<id> replay=<path>` line;
exit 2: harness error (the machinery, not the library, is broken)."""
import sys, os, json, time, argparse, importlib, traceback, re
from . import harness

ROOT = os.path.dirname(os.path.dirname(os.path.abspath(__file__)))

def _slug(s):
    return re.sub(r"[^A-Za-z0-9_.-]+", "_", s)[:80]

def main(argv=None):
    ap = argparse.ArgumentParser()
    ap.add_argument("pid")
    ap.add_argument("--tier", default=os.environ.get("VERIF_TIER") or "quick", choices=["quick", "thorough"])
    ap.add_argument("--replay")
    ap.add_argument("--no-evidence", action="store_true")
    a = ap.parse_args(argv)
    pid = a.pid.upper()
    seed = harness.SEED
    sys.path.insert(0, ROOT)
    try:
        harness.load()
        mod = importlib.import_module(f"checks.{pid.lower()}")
        from . import findings, evidence
        if a.replay:
            rp = json.load(open(a.replay))
            bad = 0
            for case in rp["cases"]:
                vs = mod.replay(case["case"])
                print(json.dumps({"case": case["case"], "violations": vs}, default=str)[:2000])
                bad += len(vs)
            print(f"replay: {bad} violation(s) reproduced from {a.replay}")
            return 1 if bad else 0
        t0 = time.time()
        res = mod.run(a.tier, seed)
        wall = time.time() - t0
    except harness.HarnessError as e:
        print(f"HARNESS-ERROR property={pid} {e}")
        traceback.print_exc()
        return 2
    except Exception as e:
        print(f"HARNESS-ERROR property={pid} {type(e).__name__}: {e}")
        traceback.print_exc()
        return 2
    viols = res.get("violations", [])
    harness_errs = [v for v in viols if v["kind"].startswith("harness:")]
    if harness_errs:
        print(f"HARNESS-ERROR property={pid} {harness_errs[0]}")
        return 2
    new, known = findings.split(pid, viols)
    for fid, (entry, vs) in known.items():
        print(f"KNOWN-FINDING: property={pid} {entry['what']} [{fid}; {len(vs)} case(s) in this run]")
    # group new violations by kind, smallest case first
    by_kind = {}
    for v in new:
        by_kind.setdefault(v["kind"], []).append(v)
    rdir = os.path.join(ROOT, "replays", pid)
    lines = []
    unconfirmable = tuple(getattr(mod, "NO_CONFIRM_KINDS", ()))
    order_dep = {}
    for kind, vs in by_kind.items():
        vs.sort(key=lambda v: len(json.dumps(v.get("case"), default=str)))
        # re-execute before reporting: (1) the smallest cases in isolation (fresh child); (2) if that does not reproduce, the
        # cases that preceded it in its stripe and then the case (the library may carry state between calls); (3) if neither
        # reproduces, the outcome depended on process state (uninitialised memory, allocation layout) - the inputs of every
        # case are fixed, so that is a reproducibility defect of the library; it is reported with that note.
        if not (unconfirmable and kind.startswith(unconfirmable)):
            from . import parallel, engine
            status = None
            for cand in vs[:4]:
                case0 = json.loads(json.dumps(harness.jsonable(cand["case"])))
                try:
                    again = parallel.in_child(lambda: [x.get("kind") for x in mod.replay(case0)])
                except Exception as e:
                    again = []
                if kind in again:
                    status = "isolated"; vs.remove(cand); vs.insert(0, cand); break
            if status is None:
                for cand in vs[:4]:
                    ctx = cand.get("ctx")
                    if ctx and engine.LAST is not None and kind in engine.reexec_prefix(ctx):
                        status = "after-stripe-prefix"; order_dep[kind] = dict(ctx, mode=status); vs.remove(cand); vs.insert(0, cand); break
            if status is None:
                order_dep[kind] = {"mode": "unreproduced"}
        os.makedirs(rdir, exist_ok=True)
        path = os.path.join(rdir, _slug(kind) + ".json")
        with open(path, "w") as f:
            json.dump({"property": pid, "kind": kind, "tier": a.tier, "seed": seed, "count": len(vs),
                       "cases": [harness.jsonable(v) for v in vs[:5]],
                       "reproduction": ({"mode": "isolated"} if kind not in order_dep else order_dep[kind]),
                       "replay_cmd": f"/venv/bin/python -m mc.run {pid} --replay {path}"}, f, indent=1, default=str)
        lines.append((kind, len(vs), path, vs[0]))
    cov = res["coverage"]
    cov.setdefault("known_finding_cases", sum(len(vs) for _, vs in known.values()))
    if not a.no_evidence:
        evidence.write(pid, a.tier, seed, res["level"], harness.jsonable(cov), wall, len(new),
                       res.get("assumptions", []),
                       extra={"violation_kinds": {k: n for k, n, _, _ in lines},
                              "known_findings": {fid: len(vs) for fid, (_, vs) in known.items()}})
    brief = {k: cov[k] for k in ("states", "transitions", "traces_validated_against_impl", "evaluations",
                                 "distinct_nontrivial", "exhaustive") if k in cov}
    print(f"[{pid}] tier={a.tier} seed={seed} level={res['level']} wall={wall:.1f}s coverage={brief}")
    for kind, n, path, v0 in lines:
        print(f"  {kind}: {n} case(s); smallest: {json.dumps(harness.jsonable(v0.get('case')), default=str)[:300]} :: {str(v0.get('detail'))[:300]}")
        if kind in order_dep and order_dep[kind]["mode"] == "after-stripe-prefix":
            print(f"  note: {kind} reproduces only after the preceding cases of its stripe ran in the same process - state is carried between calls")
        elif kind in order_dep:
            print(f"  note: {kind} was observed in the enumeration but did not reproduce in isolation nor after its stripe prefix: with fixed inputs "
                  "the outcome depends on process state (uninitialised memory / allocation layout) - a reproducibility defect of the library")
        print(f"VIOLATION property={pid} replay={path}")
    return 1 if lines else 0

if __name__ == "__main__":
    sys.exit(main())
