"""Deterministic value alphabets.  The seed only salts the tables; every separation invariant
(|v| >= 0.5 away from kinks at 0, pairwise distance >= 0.01 inside one tensor) holds for every salt."""
import numpy as np
from . import harness

_NPTS = 199            # magnitudes 0.5 + 2.0*j/199  ->  spacing 0.01005
_GEN = 37              # 37 generates Z_199 additively (199 prime)

def _mags(n, salt):
    if n > 10 * _NPTS:
        raise harness.HarnessError(f"value table too small for {n} separated values")
    k = np.arange(n)
    idx = (salt * 11 + 5 + _GEN * k) % _NPTS
    # beyond 199 values further cycles are offset by 0.00093 (distinct; kink-sensitive ops never need that many values)
    return 0.5 + 2.0 * idx / _NPTS + 0.00093 * (k // _NPTS)

def generic(shape, salt=0, seed=None):
    """mixed sign, |v| in [0.5, 2.5], distinct magnitudes"""
    seed = harness.SEED if seed is None else seed
    n = int(np.prod(shape, dtype=int))
    m = _mags(n, salt + 3 * seed)
    k = np.arange(n)
    sgn = np.where(((k * 5 + salt + seed) % 3) == 0, -1.0, 1.0)
    sgn = np.where((k + salt) % 2 == 0, sgn, -sgn)
    return np.asarray((m * sgn).reshape(shape), dtype=np.float64)

def positive(shape, salt=0, seed=None):
    seed = harness.SEED if seed is None else seed
    n = int(np.prod(shape, dtype=int))
    return np.asarray(_mags(n, salt + 3 * seed).reshape(shape), dtype=np.float64)

def prob(shape, salt=0, seed=None):
    """probabilities in [0.05, 0.95], distinct"""
    p = (positive(shape, salt, seed) - 0.5) / 2.0      # [0,1)
    return np.asarray(0.05 + 0.9 * p, dtype=np.float64)

def with_zeros(shape, salt=0, seed=None):
    v = generic(shape, salt, seed).reshape(-1).copy()
    v[(np.arange(v.size) + salt) % 3 == 0] = 0.0
    return v.reshape(shape)

def ties(shape, salt=0, seed=None):
    n = int(np.prod(shape, dtype=int))
    tab = np.array([-1.0, 0.5, 2.0, 0.5, 2.0, 2.0, -1.0])
    k = (np.arange(n) * 3 + salt) % len(tab)
    return np.asarray(tab[k].reshape(shape), dtype=np.float64)

def small_int(shape, salt=0):
    """small-integer-valued floats (exact in any summation order)"""
    n = int(np.prod(shape, dtype=int))
    k = np.arange(n)
    return np.asarray((((k * 7 + salt * 3) % 11) - 5).reshape(shape), dtype=np.float64)

def offset(shape, salt=0, seed=None):
    """spread ~1 around a mean of 1e3 (cancellation-prone for one-pass variance formulas; judged in float32)"""
    return 1e3 + generic(shape, salt, seed)

def nonneg0(shape, salt=0, seed=None):
    """non-negative values with exact zeros (boundary of the domain of sqrt / log / fractional powers)"""
    return np.abs(with_zeros(shape, salt, seed))

def zeros(shape, salt=0, seed=0):
    """an all-zero operand (a freshly zero-initialised bias or weight)"""
    return np.zeros(shape)

def large(shape, salt=0, seed=None):
    """finite magnitudes beyond the float32 exp range (|x| in 89..700): a float64 kernel must not treat them as overflow"""
    n = int(np.prod(shape, dtype=int))
    tab = np.array([89.0, -89.5, 100.0, -120.0, 150.0, 95.0, -300.0, 700.0, 88.5, -88.25])
    k = (np.arange(n) * 3 + salt) % len(tab)
    return np.asarray(tab[k].reshape(shape), dtype=np.float64)

PATTERNS = {"large": large, "zeros": zeros, "nonneg0": nonneg0, "offset": offset, "generic": generic, "positive": positive, "prob": prob, "with_zeros": with_zeros, "ties": ties}

def make(pattern, shape, salt=0):
    return PATTERNS[pattern](tuple(shape), salt)

def dense_g(shape, salt=0):
    """a dense mixed-sign upstream gradient"""
    return generic(shape, salt + 91)
