"""E1 lattice engine: enumerate every case of a finite lattice, run it on the real library, judge it.

fn(case) -> {"nontrivial": bool, "outcome": str, "violations": [{"kind","detail"}]}"""
import collections, json
from . import parallel, harness

def run_cases(cases, fn, nproc=None, max_samples=8, rot=None):
    n = len(cases)
    harness.torch()      # import before forking
    rot = harness.SEED if rot is None else rot
    def work(a, b, c):
        ev = 0; nt = set(); viols = []; outcomes = collections.Counter(); samples = []
        for i in range(a, b, c):
            case = cases[i]
            try:
                with harness.quiet():
                    r = fn(case)
            except harness.HarnessError as e:
                viols.append({"kind": "harness:error", "detail": str(e), "case": case}); continue
            ev += 1
            if r.get("nontrivial"):
                nt.add(harness.digest(case))
            outcomes[r.get("outcome", "ok")] += 1
            for v in r.get("violations", []):
                viols.append({"kind": v["kind"], "detail": v.get("detail", ""), "case": case})
            if len(samples) < 2 and r.get("nontrivial"):
                samples.append(case)
        return ev, nt, viols, outcomes, samples
    parts = parallel.run_chunks(work, parallel.stripes(n, None, rot), nproc)
    ev = sum(p[0] for p in parts)
    nt = set().union(*[p[1] for p in parts]) if parts else set()
    viols = [v for p in parts for v in p[2]]
    outcomes = collections.Counter()
    for p in parts: outcomes.update(p[3])
    samples = [s for p in parts for s in p[4]][:max_samples]
    return {"evaluations": ev, "distinct_nontrivial": len(nt), "violations": viols,
            "outcomes": dict(outcomes), "samples": samples, "n_cases": n}
