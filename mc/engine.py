"""E1 lattice engine: enumerate every case of a finite lattice, run it on the real library, judge it.

fn(case) -> {"nontrivial": bool, "outcome": str, "violations": [{"kind","detail"}]}"""
import collections, json
from . import parallel, harness

LAST = None       # (cases, fn) of the most recent run, for re-executing a stripe prefix

def reexec_prefix(ctx):
    """re-run, in a fresh forked child, the cases that preceded a violating case in its stripe (same order), then the case
    itself; -> violation kinds of the last case.  Used when a violation does not reproduce in isolation: the library then
    carries state between calls (a cache, a hoisted buffer) and the *sequence* is the counterexample."""
    cases, fn = LAST
    a, b, c = ctx["stripe"]; idx = ctx["index"]
    def work(_):
        kinds = []
        for i in range(a, idx + 1, c):
            with harness.quiet():
                r = fn(cases[i])
            if i == idx: kinds = [v["kind"] for v in r.get("violations", [])]
        return kinds
    return parallel.run_chunks(work, [(0,), (1,)], 2)[0]

def run_cases(cases, fn, nproc=None, max_samples=8, rot=None):
    global LAST
    LAST = (cases, fn)
    n = len(cases)
    harness.torch()      # import before forking
    rot = harness.SEED if rot is None else rot
    def work(a, b, c):
        ev = 0; nt = set(); viols = []; outcomes = collections.Counter(); samples = []
        for i in range(a, b, c):
            case = cases[i]
            try:
                with harness.quiet():
                    r = fn(case)
            except harness.HarnessError as e:
                viols.append({"kind": "harness:error", "detail": str(e), "case": case}); continue
            ev += 1
            if r.get("nontrivial"):
                nt.add(harness.digest(case))
            outcomes[r.get("outcome", "ok")] += 1
            for v in r.get("violations", []):
                viols.append({"kind": v["kind"], "detail": v.get("detail", ""), "case": case, "ctx": {"stripe": [a, b, c], "index": i}})
            if len(samples) < 2 and r.get("nontrivial"):
                samples.append(case)
        return ev, nt, viols, outcomes, samples
    parts = parallel.run_chunks(work, parallel.stripes(n, None, rot), nproc)
    ev = sum(p[0] for p in parts)
    nt = set().union(*[p[1] for p in parts]) if parts else set()
    viols = [v for p in parts for v in p[2]]
    outcomes = collections.Counter()
    for p in parts: outcomes.update(p[3])
    samples = [s for p in parts for s in p[4]][:max_samples]
    return {"evaluations": ev, "distinct_nontrivial": len(nt), "violations": viols,
            "outcomes": dict(outcomes), "samples": samples, "n_cases": n}
