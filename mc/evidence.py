"""Evidence writer. Structural validation is done here (jsonschema is not in /venv); the full
schema validation is `python3-vt tools/validate_evidence.py`."""
import json, os, time

EVID_DIR = os.path.join(os.path.dirname(os.path.dirname(os.path.abspath(__file__))), "evidence")
LEVELS = {"exploration", "fault_enumeration", "model_checking", "proof", "translation_validation", "other"}

def _check(ev):
    for k in ("property_id", "tier", "seed", "level", "coverage", "wall_s"):
        assert k in ev, f"evidence lacks {k}"
    assert ev["tier"] in ("quick", "thorough")
    assert isinstance(ev["seed"], int)
    assert ev["level"] in LEVELS
    c = ev["coverage"]
    assert isinstance(c.get("samples"), list) and len(c["samples"]) >= 1, "samples must be a non-empty list"
    if ev["level"] == "model_checking":
        for k in ("states", "transitions", "traces_validated_against_impl"):
            assert isinstance(c.get(k), int) and c[k] >= (0 if k.startswith("traces") else 1), f"coverage.{k}"
    else:
        assert isinstance(c.get("evaluations"), int) and c["evaluations"] >= 1
        assert isinstance(c.get("distinct_nontrivial"), int) and c["distinct_nontrivial"] >= 2
        assert isinstance(c.get("rule"), str)

def write(pid, tier, seed, level, coverage, wall_s, violations, assumptions=(), extra=None):
    ev = {"property_id": pid, "tier": tier, "seed": int(seed), "level": level,
          "coverage": coverage, "assumptions": list(assumptions), "wall_s": round(float(wall_s), 3),
          "violations": int(violations)}
    if extra: ev.update(extra)
    _check(ev)
    os.makedirs(EVID_DIR, exist_ok=True)
    path = os.path.join(EVID_DIR, f"{pid}.json")
    tmp = path + ".tmp"
    with open(tmp, "w") as f:
        json.dump(ev, f, indent=1, sort_keys=False, default=str)
        f.write("\n")
    os.replace(tmp, path)
    return path
