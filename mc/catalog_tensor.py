"""Tensor-op catalogue: bounded argument lattices + how to call the library + the mirrored reference.

A case is a JSON-able dict {"op", "shapes", "args", "pats"}.  `run_lib(case, arrays, rg)` applies the
library op to fresh Tensors; `run_ref(case, arrays)` evaluates the mirrored PyTorch/NumPy definition."""
import itertools
import numpy as np
from . import harness, lattice, values

OPS = {}

class Op:
    def __init__(self, name, lib, ref, diff=True):
        self.name, self.lib, self.ref, self.diff = name, lib, ref, diff

def op(name, ref, diff=True):
    def deco(fn):
        OPS[name] = Op(name, fn, ref, diff)
        return fn
    return deco

def T():
    return harness.torch()

# ----------------------------------------------------------------------------- index decoding
def dec_index(enc):
    def one(e):
        if e == "E": return Ellipsis
        if e == "N": return None
        if e[0] == "i": return int(e[1])
        if e[0] == "s": return slice(e[1], e[2], e[3])
        if e[0] == "l": return list(e[1])
        if e[0] == "a": return np.array(e[1], dtype=np.int64)        # integer index array (any rank)
        if e[0] == "m": return np.array(e[1], dtype=bool)            # boolean mask array
        if e[0] == "ml": return [bool(b) for b in e[1]]              # boolean mask as a Python list
        raise harness.HarnessError(f"bad index {e}")
    if isinstance(enc, (list, tuple)) and enc and enc[0] == "T":
        return tuple(one(e) for e in enc[1])
    return one(enc)

def _td(d):
    return tuple(d) if isinstance(d, list) else d

# ----------------------------------------------------------------------------- op definitions
@op("add", lambda t, a, A: a[0] + a[1])
def _(sg, x, A): return x[0] + x[1]
@op("add_fn", lambda t, a, A: a[0] + a[1])
def _(sg, x, A): return sg.add(x[0], x[1])
@op("sub", lambda t, a, A: a[0] - a[1])
def _(sg, x, A): return x[0] - x[1]
@op("mul", lambda t, a, A: a[0] * a[1])
def _(sg, x, A): return x[0] * x[1]
@op("mul_fn", lambda t, a, A: a[0] * a[1])
def _(sg, x, A): return sg.mul(x[0], x[1])
@op("div", lambda t, a, A: a[0] / a[1])
def _(sg, x, A): return x[0] / x[1]
@op("neg", lambda t, a, A: -a[0])
def _(sg, x, A): return -x[0]
@op("neg_fn", lambda t, a, A: -a[0])
def _(sg, x, A): return sg.neg(x[0])
@op("addc", lambda t, a, A: a[0] + A["c"])
def _(sg, x, A): return x[0] + A["c"]
@op("radd", lambda t, a, A: A["c"] + a[0])
def _(sg, x, A): return A["c"] + x[0]
@op("subc", lambda t, a, A: a[0] - A["c"])
def _(sg, x, A): return x[0] - A["c"]
@op("rsub", lambda t, a, A: A["c"] - a[0])
def _(sg, x, A): return A["c"] - x[0]
@op("mulc", lambda t, a, A: a[0] * A["c"])
def _(sg, x, A): return x[0] * A["c"]
@op("rmul", lambda t, a, A: A["c"] * a[0])
def _(sg, x, A): return A["c"] * x[0]
@op("divc", lambda t, a, A: a[0] / A["c"])
def _(sg, x, A): return x[0] / A["c"]
@op("rdiv", lambda t, a, A: A["c"] / a[0])
def _(sg, x, A): return A["c"] / x[0]
@op("matmul", lambda t, a, A: a[0] @ a[1])
def _(sg, x, A): return x[0] @ x[1]
@op("addmm", lambda t, a, A: a[0] + a[1] @ a[2])
def _(sg, x, A): return sg.addmm(x[0], x[1], x[2])
@op("pow", lambda t, a, A: a[0] ** A["n"])
def _(sg, x, A): return x[0] ** A["n"]
@op("rpow", lambda t, a, A: A["n"] ** a[0])
def _(sg, x, A): return A["n"] ** x[0]
@op("index", None)
def _(sg, x, A): return x[0][dec_index(A["idx"])]
@op("concat", lambda t, a, A: t.cat(list(a), A["dim"]))
def _(sg, x, A): return sg.concat(list(x), A["dim"])
@op("stack", lambda t, a, A: t.stack(list(a), A["dim"]))
def _(sg, x, A): return sg.stack(list(x), A["dim"])
@op("unbind", lambda t, a, A: t.unbind(a[0], A["dim"])[A["out"]])
def _(sg, x, A): return sg.unbind(x[0], A["dim"])[A["out"]]
@op("clone", lambda t, a, A: a[0].clone())
def _(sg, x, A): return x[0].clone()
@op("exp", lambda t, a, A: t.exp(a[0]))
def _(sg, x, A): return x[0].exp()
@op("log", lambda t, a, A: t.log(a[0]))
def _(sg, x, A): return x[0].log()
@op("log_scaled", lambda t, a, A: t.log(a[0] * A["c"] + 1e-12))
def _(sg, x, A): return (x[0] * A["c"]).log()      # log at arguments of size c (1e-12 ... 1e-6): differentiated in the scaled variable
@op("sqrt", lambda t, a, A: t.sqrt(a[0]))
def _(sg, x, A): return x[0].sqrt()

def _ref_reduce(name):
    def ref(t, a, A):
        d, kd = _td(A["dim"]), A["keepdims"]
        x = a[0]
        if name in ("sum", "mean"):
            if d is None:
                return getattr(t, name)(x) if not kd else getattr(t, name)(x, dim=tuple(range(x.ndim)), keepdim=True)
            return getattr(t, name)(x, dim=d, keepdim=kd)
        if d is None:
            return getattr(t, name)(x) if not kd else getattr(t, "a" + name)(x, dim=tuple(range(x.ndim)), keepdim=True)
        return getattr(t, name)(x, dim=d, keepdim=kd).values
    return ref
for _n in ("sum", "mean", "max", "min"):
    def _mk(n):
        @op(n, _ref_reduce(n))
        def _(sg, x, A): return getattr(x[0], n)(dim=_td(A["dim"]), keepdims=A["keepdims"])
    _mk(_n)

@op("squeeze", lambda t, a, A: a[0].squeeze() if A["dim"] is None else a[0].squeeze(_td(A["dim"])))
def _(sg, x, A): return x[0].squeeze(_td(A["dim"]))
def _ref_unsqueeze(t, a, A):
    d = _td(A["dim"])
    if isinstance(d, tuple):
        return t.from_numpy(np.expand_dims(a[0].numpy(), d).copy())
    return a[0].unsqueeze(d)
@op("unsqueeze", _ref_unsqueeze)
def _(sg, x, A): return x[0].unsqueeze(_td(A["dim"]))
@op("reshape", lambda t, a, A: a[0].reshape(tuple(A["shape"])))
def _(sg, x, A): return x[0].reshape(tuple(A["shape"]))
@op("movedim", lambda t, a, A: a[0].movedim(_td(A["src"]), _td(A["dst"])))
def _(sg, x, A): return x[0].movedim(_td(A["src"]), _td(A["dst"]))
@op("transpose", lambda t, a, A: a[0].transpose(A["d0"], A["d1"]))
def _(sg, x, A): return x[0].transpose(A["d0"], A["d1"])
@op("flatten", lambda t, a, A: a[0].flatten(A["start"], A["end"]))
def _(sg, x, A): return x[0].flatten(A["start"], A["end"])
@op("flatten_default", lambda t, a, A: a[0].flatten())
def _(sg, x, A): return x[0].flatten()
@op("unfold_dim", lambda t, a, A: a[0].unfold(A["dim"], A["size"], A["step"]))
def _(sg, x, A): return x[0].unfold(A["dim"], A["size"], A["step"])

# ----------------------------------------------------------------------------- executing a case
def arrays_for(case, dtype=np.float64):
    pats = case.get("pats") or ["generic"] * len(case["shapes"])
    return [np.asarray(vmod(case, p, values.make(p, tuple(s), salt=7 * i + case.get("salt", 0))), dtype=dtype)
            for i, (s, p) in enumerate(zip(case["shapes"], pats))]

VMODS = {"tiny": lambda a: a * 1e-4, "large": lambda a: a * 1e3, "offset": lambda a: a + 1e5,
         "zeros": lambda a: a * 0.0, "ones": lambda a: a * 0.0 + 1.0}

def vmod(case, pat, a):
    """value-scale variant of a case (thorough tier): applied to 'generic' operands only"""
    m = case.get("vmod")
    return VMODS[m](a) if (m and pat == "generic") else a

def run_lib(case, arrays, rg=None, copy=True):
    """-> (out Tensor, [operand Tensors]).  Raises whatever the library raises.
    copy=False hands the given ndarrays (possibly views of one another) to the library as they are."""
    sg = harness.load()
    rg = rg or [False] * len(arrays)
    ts = [sg.Tensor(np.array(a, copy=True) if copy else a, requires_grad=bool(r)) for a, r in zip(arrays, rg)]
    out = OPS[case["op"]].lib(sg, ts, case.get("args") or {})
    return out, ts

def run_ref(case, arrays):
    """-> np.ndarray; raises if the mirrored definition rejects the arguments."""
    o = OPS[case["op"]]
    A = case.get("args") or {}
    if case["op"] == "index":
        return np.asarray(arrays[0][dec_index(A["idx"])])
    t = T()
    r = o.ref(t, [t.from_numpy(np.array(a, copy=True)) for a in arrays], A)
    return r.detach().numpy() if hasattr(r, "detach") else np.asarray(r)

# ----------------------------------------------------------------------------- lattices
def _S(tier, wide=False):
    if tier == "quick":
        return lattice.shapes(4 if wide else 3)
    s = lattice.shapes(4)
    if wide:
        s = s + list(itertools.product((1, 2), repeat=5))
    return s

POW_N = [0, 1, 2, 3, -1, -2, 0.5, 1.5, -0.5, 2.0]
RPOW_N = [2, 0.5, 3.7, 1, 2.718281828459045]

def index_cases():
    per_axis = [("i", 1), ("i", -1), ("s", None, None, None), ("s", 0, 2, None), ("s", None, None, 2),
                ("s", None, None, -1), ("s", 2, 0, -1), ("l", [0, 0]), ("l", [1, 0]), ("l", [-1])]
    out = []
    for shape in [(3,), (3, 3), (3, 2, 3)]:
        r = len(shape)
        for k in range(1, r + 1):
            for combo in itertools.product(per_axis, repeat=k):
                if shape == (3, 2, 3) and k >= 2 and combo[1] in (("s", 0, 2, None), ("s", 2, 0, -1)):
                    pass   # still legal on a size-2 axis
                out.append((shape, ["T", list(combo)] if k > 1 else combo[0]))
                if k == 1:
                    out.append((shape, ["T", [combo[0]]]))
        # ellipsis / newaxis placements
        for a in per_axis[:4]:
            out.append((shape, ["T", ["E", a]]))
            out.append((shape, ["T", [a, "E"]]))
            out.append((shape, ["T", ["N", a]]))
            out.append((shape, ["T", [a, "N"]]))
            if r >= 2:
                out.append((shape, ["T", [a, "E", a]]))
                out.append((shape, ["T", [a, "N", a]]))
        out.append((shape, "E")); out.append((shape, "N"))
        # one element spelled twice in one index list (positive and negative position): still a repeated selection
        n0 = shape[0]
        for lst in ([0, -n0], [n0 - 1, -1, 1], [-1, 1, n0 - 1]):
            out.append((shape, ("l", lst))); out.append((shape, ["T", [("l", lst)]]))
            if r >= 2:
                out.append((shape, ["T", [("s", None, None, None), ("l", [0, -shape[1]])]]))
                out.append((shape, ["T", [("l", lst), ("l", [0, -shape[1], 0][: len(lst)])]]))
        # integer index arrays and boolean masks (NumPy advanced indexing; the forward hands the key to NumPy as it is)
        n0 = shape[0]
        msk = lambda n, k=0: [bool((i + k) % 2 == 0) for i in range(n)]
        singles = [("a", [1, 0]), ("a", [-1, -1]), ("a", [[0, 1], [1, 0]]), ("a", [0, -n0, n0 - 1]), ("m", msk(n0)), ("ml", msk(n0)), ("m", msk(n0, 1))]
        for e in singles:
            out.append((shape, e)); out.append((shape, ["T", [e]]))
        if r >= 2:
            n1 = shape[1]
            for e in (("a", [1, 0]), ("a", [0, 0]), ("m", msk(n1)), ("ml", msk(n1, 1))):
                out.append((shape, ["T", [("s", None, None, None), e]])); out.append((shape, ["T", ["E", e]]))
                out.append((shape, ["T", [("i", -1), e]])); out.append((shape, ["T", [("s", None, None, -1), e, "N"]]))
            out.append((shape, ["T", [("a", [0, 2, 2]), ("a", [1, 0, 0])]])); out.append((shape, ["T", [("a", [[0], [2]]), ("a", [1, 0])]]))
            out.append((shape, ["T", [("m", msk(n0)), ("a", [1, 0])]]))
            full = [[bool((i * n1 + j) % 2 == 0) for j in range(n1)] for i in range(n0)]
            out.append((shape, ("m", full))); out.append((shape, ["T", [("m", full)]]))
    out.append(((), "E")); out.append(((), "N")); out.append(((), ["T", []]))
    return out

def cases(tier, what="forward"):
    """what: 'forward' (C05: wide lattice incl. reject side) or 'grad' (C01: accepted, differentiable)."""
    wide = what == "forward"
    S = _S(tier, wide)
    Sg = _S(tier, False) if tier == "quick" else lattice.shapes(3) + [s for s in lattice.shapes(4) if len(s) == 4 and 3 not in s[:2]]
    SS = S if wide else Sg
    out = []
    def add(op, shapes, args=None, pats=None, salt=0):
        c = {"op": op, "shapes": [list(s) for s in shapes], "args": args or {}}
        if pats: c["pats"] = pats
        if salt: c["salt"] = salt
        out.append(c)
    # --- broadcasting arithmetic
    B = lattice.shapes(3) if tier == "quick" else lattice.shapes(3) + [s for s in lattice.shapes(4) if len(s) == 4 and s.count(3) <= 1]
    for s1 in B:
        for s2 in B:
            ok = lattice.broadcast_shape(s1, s2) is not None
            if not ok and (not wide or len(s1) > 2 or len(s2) > 2):
                continue
            for o in ("add", "sub", "mul", "div"):
                add(o, [s1, s2])
    for s in lattice.shapes(2):
        for s2 in lattice.shapes(2):
            if lattice.broadcast_shape(s, s2) is not None:
                add("add_fn", [s, s2]); add("mul_fn", [s, s2])
                # operands containing exact zeros (differentiable there): mul / add / sub, and division of a zero numerator
                for o in ("add", "sub", "mul"):
                    add(o, [s, s2], pats=["with_zeros", "with_zeros"])
                add("div", [s, s2], pats=["with_zeros", "generic"])
    for s in lattice.shapes(2) + [(2, 3, 2)]:
        for n in (1, 2, 3):
            add("pow", [s], {"n": n}, pats=["with_zeros"])
        add("exp", [s], pats=["with_zeros"]); add("neg", [s], pats=["with_zeros"])
        for d in [None] + lattice.dims(len(s)):
            add("sum", [s], {"dim": d, "keepdims": False}, pats=["with_zeros"]); add("mean", [s], {"dim": d, "keepdims": True}, pats=["with_zeros"])
    for m, k, n in ((2, 2, 2), (1, 3, 2), (3, 1, 1)):
        add("matmul", [(m, k), (k, n)], pats=["with_zeros", "with_zeros"])
    for s in SS:
        for o in ("addc", "radd", "subc", "rsub", "mulc", "rmul", "divc", "rdiv"):
            for c in (2.5, -3, 0.25):
                add(o, [s], {"c": c})
        add("neg", [s]); add("neg_fn", [s]); add("clone", [s]); add("exp", [s])
        add("log", [s], pats=["positive"]); add("sqrt", [s], pats=["positive"])
        if not wide and len(s) <= 2:
            for c in (1e-12, 1e-10, 1e-7):     # where the 1e-12 guard inside log() matters: backward must differentiate what forward computes
                add("log_scaled", [s], {"c": c}, pats=["positive"])
        for n in POW_N:
            add("pow", [s], {"n": n}, pats=["positive"])
        for n in (2, 3, -1, -2, 1, 0):
            add("pow", [s], {"n": n}, pats=["generic"])
        for n in (2.0, 3.0, 4.0, -2.0, -1.0, 1.0, 0.0):       # float-TYPED integer-valued exponents are fine on negative bases too
            add("pow", [s], {"n": n}, pats=["generic"])
        for n in (0, 0.0, 1, 2, 3, 2.0):                       # non-negative integer powers are differentiable at x = 0 as well
            add("pow", [s], {"n": n}, pats=["with_zeros"])
        for n in RPOW_N:
            add("rpow", [s], {"n": n})
    # --- matmul / addmm
    bp = [(), (1,), (2,), (1, 1), (1, 2), (2, 1), (2, 2)]
    for b1 in bp:
        for b2 in bp:
            if lattice.broadcast_shape(b1, b2) is None and not wide:
                continue
            for m, k, n in itertools.product((1, 2, 3), repeat=3):
                if tier == "quick" and not wide and (len(b1) + len(b2) >= 3) and 3 in (m, k, n) and (m, k, n) != (3, 2, 1) and (m,k,n) != (1, 2, 3):
                    continue
                add("matmul", [b1 + (m, k), b2 + (k, n)])
    if wide:
        for s1 in [(), (1,), (2,), (3,), (2, 3), (3, 2)]:
            for s2 in [(), (1,), (2,), (3,), (2, 3), (3, 2)]:
                if min(len(s1), len(s2)) < 2 or s1[-1] != s2[-2]:
                    add("matmul", [s1, s2])
    for m, k, n in itertools.product((1, 2, 3), repeat=3):
        for s1 in [(), (1,), (n,), (1, n), (m, 1), (m, n), (1, 1)] + ([(m,), (n, m), (2, m, n)] if wide else []):
            add("addmm", [s1, (m, k), (k, n)])
    # --- indexing
    for shape, idx in index_cases():
        add("index", [shape], {"idx": idx})
    # --- concat / stack / unbind
    CS = lattice.shapes(3) if tier == "quick" else SS
    for s in CS:
        r = len(s)
        for d in lattice.dims(r):
            for k in (1, 2, 3):
                add("concat", [s] * k, {"dim": d})
            # different sizes along the concat dim
            s2 = list(s); s2[d] = s[d] % 3 + 1
            add("concat", [s, tuple(s2)], {"dim": d})
            add("concat", [tuple(s2), s, s], {"dim": d})
            if wide and r >= 2:
                s3 = list(s); s3[(d + 1) % r] = s[(d + 1) % r] % 3 + 1     # mismatch off the concat dim -> reject
                if tuple(s3) != tuple(s): add("concat", [s, tuple(s3)], {"dim": d})
            for o in range(s[d]):
                add("unbind", [s], {"dim": d, "out": o})
        for d in range(-r - 1, r + 1):
            for k in (1, 2, 3):
                add("stack", [s] * k, {"dim": d})
        if wide and r >= 1:
            s3 = list(s); s3[0] = s[0] % 3 + 1
            add("stack", [s, tuple(s3)], {"dim": 0})
    # --- reductions
    for s in SS:
        r = len(s)
        dimsets = [None] + lattice.dims(r) + lattice.signed_dim_tuples(r)
        if tier == "quick" and r >= 4:
            dimsets = [None] + lattice.dims(r) + [t for t in lattice.signed_dim_tuples(r) if len(t) <= 2]
        if not wide:
            # the empty dim tuple: NumPy reduces nothing, torch everything - whichever the forward does, backward differentiates THAT
            dimsets = dimsets + [()]
        for d in dimsets:
            for kd in (False, True):
                add("sum", [s], {"dim": d, "keepdims": kd}); add("mean", [s], {"dim": d, "keepdims": kd})
                if d is None or isinstance(d, int):
                    for pat in ("generic", "ties"):
                        add("max", [s], {"dim": d, "keepdims": kd}, pats=[pat])
                        add("min", [s], {"dim": d, "keepdims": kd}, pats=[pat])
    # --- squeeze / unsqueeze / reshape / movedim / transpose / flatten / unfold_dim
    for s in SS:
        r = len(s)
        for d in [None] + lattice.dims(r) + [tuple(c) for k in range(2, r + 1) for c in itertools.combinations(range(r), k)] \
                + ([(-1, 0)] if r >= 2 else []) \
                + [tuple(reversed(c)) for k in range(2, r + 1) for c in itertools.combinations(range(r), k)] \
                + [tuple(x - r for x in c) for c in itertools.combinations(range(r), 2)] + [(c[1] - r, c[0]) for c in itertools.combinations(range(r), 2)]:
            add("squeeze", [s], {"dim": d})
        for d in range(-r - 1, r + 1):
            add("unsqueeze", [s], {"dim": d})
        for d in itertools.combinations(range(r + 2), 2):
            add("unsqueeze", [s], {"dim": list(d)})
            # the same positions in the other order and spelled negatively (positions refer to the RESULT, in any order)
            add("unsqueeze", [s], {"dim": [d[1], d[0]]})
            add("unsqueeze", [s], {"dim": [d[0] - (r + 2), d[1] - (r + 2)]}); add("unsqueeze", [s], {"dim": [d[1], d[0] - (r + 2)]})
        if r <= 2:
            for d in itertools.permutations(range(r + 3), 3):
                add("unsqueeze", [s], {"dim": list(d)})
        for a in lattice.dims(r):
            for b in lattice.dims(r):
                add("movedim", [s], {"src": a, "dst": b})
                add("transpose", [s], {"d0": a, "d1": b})
                add("flatten", [s], {"start": a, "end": b})
        add("flatten_default", [s])
        # several axes moved at once: every pair of distinct sources x every pair of distinct destinations (any order, either sign)
        if 2 <= r <= 3:
            for src in itertools.permutations(range(r), 2):
                for dst in itertools.permutations(range(r), 2):
                    add("movedim", [s], {"src": list(src), "dst": list(dst)})
                    add("movedim", [s], {"src": [src[0] - r, src[1]], "dst": [dst[0], dst[1] - r]})
        if r == 3:
            for src in itertools.permutations(range(3), 3):
                add("movedim", [s], {"src": list(src), "dst": [2, 0, 1]}); add("movedim", [s], {"src": [0, 1, 2], "dst": list(src)})
        for d in lattice.dims(r):
            for size in range(1, s[d] + (2 if wide else 1)):
                for step in range(1, s[d] + 2):
                    add("unfold_dim", [s], {"dim": d, "size": size, "step": step})
    RS = lattice.shapes(3) if tier == "quick" else lattice.shapes(4)
    targets = set()
    for r2 in range(0, 4):
        for t_ in itertools.product((1, 2, 3, 4, 6, 9, -1), repeat=r2):
            if t_.count(-1) <= 1:
                targets.add(t_)
    targets = sorted(targets)
    for s in RS:
        n = int(np.prod(s, dtype=int))
        for t_ in targets:
            known = int(np.prod([x for x in t_ if x != -1], dtype=int))
            legal = (known == n) if -1 not in t_ else (known > 0 and n % known == 0)
            if legal or (wide and len(s) <= 2):
                add("reshape", [s], {"shape": list(t_)})
    return out
