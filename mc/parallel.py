"""Fork pool: data and functions are inherited by fork, only index chunks and results are pickled."""
import os, multiprocessing as mp

NPROC = int(os.environ.get("VERIF_NPROC", "0") or 0) or min(16, os.cpu_count() or 1)
_FN = None

def _call(args):
    return _FN(*args)

def run_chunks(fn, chunks, nproc=None):
    """Return [fn(*c) for c in chunks], computed by forked workers (order preserved)."""
    global _FN
    nproc = nproc or NPROC
    chunks = list(chunks)
    if nproc <= 1 or len(chunks) <= 1:
        return [fn(*c) for c in chunks]
    _FN = fn
    ctx = mp.get_context("fork")
    # one fresh forked process per chunk: no library state (caches, hoisted buffers) leaks from one chunk into the next,
    # so what a case sees depends only on the cases before it in its own chunk (re-executable)
    with ctx.Pool(min(nproc, len(chunks)), maxtasksperchild=1) as pool:
        return pool.map(_call, chunks, chunksize=1)

def stripes(n, parts=None, rot=0):
    """Deterministic partition of range(n) into (start, stop, step) stripes, rotated by `rot`."""
    parts = parts or NPROC * 4
    parts = max(1, min(parts, n)) if n else 1
    return [((k + rot) % parts, n, parts) for k in range(parts)]


def in_child(fn):
    """run fn() in a fresh forked child and return its (picklable) result - keeps the parent free of any library state"""
    return run_chunks(lambda _i: fn(), [(0,), (1,)], 2)[0]


def fork_call(fn):
    """run fn() in a child created with os.fork (usable inside pool workers, which may not create pools); returns the pickled result"""
    import pickle, struct
    r, w = os.pipe()
    pid = os.fork()
    if pid == 0:
        code = 0
        try:
            os.close(r)
            try:
                payload = pickle.dumps(("ok", fn()))
            except BaseException as e:      # noqa
                payload = pickle.dumps(("err", f"{type(e).__name__}: {e}"))
            with os.fdopen(w, "wb") as f:
                f.write(payload)
        finally:
            os._exit(code)
    os.close(w)
    with os.fdopen(r, "rb") as f:
        data = f.read()
    os.waitpid(pid, 0)
    kind, val = pickle.loads(data)
    if kind == "err":
        raise RuntimeError(val)
    return val
