"""nn catalogue: activations, softmax family, losses (functional + modules x reductions), linear, conv,
pooling, unfold/fold, batch-norm, dropout, Flatten - lattices, library callers, references.

case = {"op", "form": "fn"|"layer", "shapes": [...], "args": {...}, "pats": [...]}
Operands are float arrays except integer label vectors (pattern "labels:<C>:<code>")."""
import itertools
import numpy as np
from . import harness, lattice, values, randsrc

def T():
    return harness.torch()

def _tup(v):
    return tuple(v) if isinstance(v, list) else v

# ----------------------------------------------------------------------------- operands
def arrays_for(case, dtype=np.float64):
    out = []
    pats = case.get("pats") or ["generic"] * len(case["shapes"])
    for i, (s, p) in enumerate(zip(case["shapes"], pats)):
        s = tuple(s)
        if p.startswith("labels:"):
            _, C, code = p.split(":"); C = int(C); code = int(code)
            n = int(np.prod(s, dtype=int)); lab = []
            for _ in range(n):
                lab.append(code % C); code //= C
            out.append(np.array(lab, dtype=np.int64).reshape(s))
        elif p.startswith("target:"):
            out.append(np.full(s, float(p.split(":")[1]), dtype=dtype))
        elif p == "target01":
            n = int(np.prod(s, dtype=int))
            out.append(np.array([(k * 2 + 1) % 3 != 0 for k in range(n)], dtype=dtype).reshape(s))
        elif p.startswith("target01:"):
            # hard 0/1 targets held in the dtype they were loaded in (a uint8 mask, bool, integer class ids), not converted by the caller
            n = int(np.prod(s, dtype=int))
            out.append(np.array([(k * 2 + 1) % 3 != 0 for k in range(n)], dtype=np.dtype(p.split(":")[1])).reshape(s))
        elif p.startswith("scales:"):
            # generic values; every slice along dim d sits on its own scale (offset 0 or 900): per-slice results are unchanged
            # by a per-slice shift, but anything computed across slices (a global maximum) is not
            d = int(p.split(":")[1]) % max(len(s), 1)
            a = values.generic(s, salt=7 * i)
            idx = np.indices(s) if len(s) else np.zeros((0,))
            par = sum(idx[k] for k in range(len(s)) if k != d) % 2 if len(s) else 0
            out.append(np.asarray(a + 900.0 * par, dtype=dtype))
        elif p == "with_inf":
            a = np.asarray(values.generic(s, salt=7 * i), dtype=dtype).copy(); f = a.reshape(-1)
            if f.size: f[0] = -np.inf
            if f.size > 1: f[-1] = np.inf
            out.append(a)          # a masked score (-inf) and an overflowed one (+inf) among ordinary values
        elif p == "offset_neg":
            out.append(np.asarray(values.generic(s, salt=7 * i) - 1e3, dtype=dtype))       # every value around -1000
        elif p == "masked_last":
            # logits / log-probabilities whose last class is masked out with -inf (never the target class in the cases using it)
            a = np.asarray(values.generic(s, salt=7 * i) * 2.0, dtype=dtype); a[..., -1] = -np.inf
            out.append(a)
        elif p == "logits":
            out.append(np.asarray(values.generic(s, salt=7 * i) * 2.0, dtype=dtype))
        elif p == "var":
            out.append(np.asarray(values.positive(s, salt=7 * i), dtype=dtype))
        else:
            a = values.make(p, s, salt=7 * i)
            m = case.get("vmod")
            if m and p == "generic":
                a = {"tiny": a * 1e-4, "large": a * 1e3, "offset": a + 1e5, "zeros": a * 0.0, "ones": a * 0.0 + 1.0}[m]
            out.append(np.asarray(a, dtype=dtype))
    return out

# ----------------------------------------------------------------------------- library side
COPY = True      # C11 sets this to False to hand views straight to the library

def _mk(sg, a, rg):
    return sg.Tensor(np.array(a, copy=True) if COPY else a, requires_grad=bool(rg) and np.asarray(a).dtype.kind == "f")

def _param(sg, nn, a, rg):
    p = nn.Parameter(sg.Tensor(np.array(a, copy=True) if COPY else a, requires_grad=True))
    if not rg: p.requires_grad = False
    return p

def _loss_module(nn, op):
    return {"mse": nn.MSELoss, "nll": nn.NLLLoss, "ce": nn.CrossEntropyLoss, "bce": nn.BCELoss, "bce_logits": nn.BCEWithLogitsLoss}[op]

def run_lib(case, arrays, rg=None, ts_override=None):
    """-> (out Tensor, operand Tensors aligned with arrays).  Fresh objects on every call (functional forms may be given
    existing operand tensors through ts_override)."""
    sg = harness.load(); nn = sg.nn; F = sg.nn.functional
    op, form, A = case["op"], case.get("form", "fn"), case.get("args") or {}
    rg = rg or [False] * len(arrays)
    ts = ts_override if ts_override is not None else [_mk(sg, a, r) for a, r in zip(arrays, rg)]
    x = ts[0]
    if op in ("relu", "selu", "tanh", "sigmoid"):
        if form == "fn": return getattr(F, op)(x), ts
        cls = {"relu": nn.ReLU, "selu": nn.SELU, "tanh": nn.Tanh, "sigmoid": nn.Sigmoid}[op]
        return cls()(x), ts
    if op == "leaky_relu":
        if form == "fn":
            return (F.leaky_relu(x, A["slope"]) if A.get("slope") is not None else F.leaky_relu(x)), ts
        return (nn.LeakyReLU(A["slope"]) if A.get("slope") is not None else nn.LeakyReLU())(x), ts
    if op in ("softmax", "log_softmax"):
        if form == "fn": return getattr(F, op)(x, A["dim"]), ts
        return (nn.Softmax if op == "softmax" else nn.LogSoftmax)(A["dim"])(x), ts
    if op in ("mse", "nll", "ce", "bce", "bce_logits"):
        if form == "fn":
            f = {"mse": F.mse_loss, "nll": F.nll_loss, "ce": F.cross_entropy, "bce": F.binary_cross_entropy,
                 "bce_logits": F.binary_cross_entropy_with_logits}[op]
            return f(ts[0], ts[1]), ts
        cls = _loss_module(nn, op)
        m = cls() if A.get("reduction") == "default" else cls(reduction=A["reduction"])
        return m(ts[0], ts[1]), ts
    if op == "linear":
        if form == "fn":
            return F.linear(ts[0], ts[1], ts[2] if len(ts) > 2 else None), ts
        out_f, in_f = np.shape(arrays[1])
        L = (nn.Neuron(in_f, bias=len(arrays) > 2) if form == "neuron" else nn.Linear(in_f, out_f, bias=len(arrays) > 2))
        L.weight = _param(sg, nn, arrays[1], rg[1]); ts[1] = L.weight
        if len(arrays) > 2:
            L.bias = _param(sg, nn, arrays[2], rg[2]); ts[2] = L.bias
        return L(ts[0]), ts
    if op in ("conv1d", "conv2d"):
        kw = {k: _tup(A[k]) for k in ("stride", "padding", "dilation") if k in A}
        if form == "fn":
            return getattr(F, op)(ts[0], ts[1], ts[2] if len(ts) > 2 else None, **kw), ts
        w = np.shape(arrays[1])
        cls = nn.Conv1d if op == "conv1d" else nn.Conv2d
        ks = _tup(A["kernel_size"]) if "kernel_size" in A else (w[2] if op == "conv1d" else tuple(w[2:]))
        L = cls(w[1], w[0], ks, bias=len(arrays) > 2, **kw)
        L.weight = _param(sg, nn, arrays[1], rg[1]); ts[1] = L.weight
        if len(arrays) > 2:
            L.bias = _param(sg, nn, arrays[2], rg[2]); ts[2] = L.bias
        return L(ts[0]), ts
    if op in ("max_pool1d", "max_pool2d", "avg_pool1d", "avg_pool2d"):
        kw = {k: _tup(A[k]) for k in ("stride", "padding", "dilation") if k in A}
        if form == "fn":
            return getattr(F, op)(ts[0], _tup(A["kernel_size"]), **kw), ts
        cls = {"max_pool1d": nn.MaxPool1d, "max_pool2d": nn.MaxPool2d, "avg_pool1d": nn.AvgPool1d, "avg_pool2d": nn.AvgPool2d}[op]
        return cls(_tup(A["kernel_size"]), **kw)(ts[0]), ts
    if op == "unfold":
        kw = {k: _tup(A[k]) for k in ("stride", "padding", "dilation") if k in A}
        if "pad_value" in A: kw["pad_value"] = A["pad_value"]
        if form == "fn": return F.unfold(ts[0], _tup(A["kernel_size"]), **kw), ts
        return nn.Unfold(_tup(A["kernel_size"]), **kw)(ts[0]), ts
    if op == "fold":
        kw = {k: _tup(A[k]) for k in ("stride", "padding", "dilation") if k in A}
        if form == "fn": return F.fold(ts[0], _tup(A["output_size"]), _tup(A["kernel_size"]), **kw), ts
        return nn.Fold(_tup(A["output_size"]), _tup(A["kernel_size"]), **kw)(ts[0]), ts
    if op == "batch_norm":
        # arrays: x, [gamma, beta] if affine, [rmean, rvar] if stats
        i = 1; gamma = beta = rm = rv = None
        if A["affine"] is True: gamma, beta = ts[i], ts[i + 1]; i += 2
        elif A["affine"] == "w": gamma = ts[i]; i += 1          # functional form only: scale without shift
        elif A["affine"] == "b": beta = ts[i]; i += 1           # functional form only: shift without scale
        if A["stats"]: rm, rv = ts[i], ts[i + 1]; i += 2
        if form == "fn":
            out = F.batch_norm(ts[0], gamma, beta, rm, rv, training=A["training"], momentum=A.get("momentum", 0.1), eps=A["eps"])
            return out, ts
        cls = nn.BatchNorm2d if form == "layer2d" else nn.BatchNorm1d
        C = np.shape(arrays[0])[1]
        L = cls(C, eps=A["eps"], momentum=A.get("momentum", 0.1), affine=A["affine"], track_running_stats=A["stats"], dtype=np.asarray(arrays[0]).dtype.type)
        j = 1
        if A["affine"] is True:
            L.weight = _param(sg, nn, arrays[1], rg[1]); L.bias = _param(sg, nn, arrays[2], rg[2]); ts[1], ts[2] = L.weight, L.bias; j = 3
        if A["stats"]:
            L.running_mean = ts[j]; L.running_var = ts[j + 1]
        L.train() if A["training"] else L.eval()
        return L(ts[0]), ts
    if op == "dropout":
        L = nn.Dropout(A["p"]) if "p" in A else nn.Dropout()
        L.train() if A.get("training", True) else L.eval()
        with randsrc.controlled(u=A["u"], z=None) as src:
            out = L(ts[0])
            case["_draws"] = src.n_u
        return out, ts
    if op == "flatten_layer":
        L = nn.Flatten(**{k: A[k] for k in ("start_dim", "end_dim") if k in A})
        return L(ts[0]), ts
    raise harness.HarnessError(f"unknown nn op {op}")

# ----------------------------------------------------------------------------- definitional references
def ref_pool(x, k, s, p, d, mode):
    """loop-nest pooling over the last len(k) axes of x (N,C,*spatial); padding never wins for max
    (-inf), padded zeros are counted for avg."""
    nd = len(k)
    pad = [(0, 0), (0, 0)] + [(pi, pi) for pi in p]
    xp = np.pad(x, pad, mode="constant", constant_values=(-np.inf if mode == "max" else 0.0))
    outs = [lattice.conv_out(x.shape[2 + a], k[a], s[a], p[a], d[a]) for a in range(nd)]
    if any(o < 1 for o in outs):
        raise ValueError("empty output")
    out = np.zeros(x.shape[:2] + tuple(outs))
    for pos in itertools.product(*[range(o) for o in outs]):
        vals = []
        for off in itertools.product(*[range(kk) for kk in k]):
            idx = tuple(pos[a] * s[a] + off[a] * d[a] for a in range(nd))
            vals.append(xp[(slice(None), slice(None)) + idx])
        st = np.stack(vals, axis=-1)
        out[(slice(None), slice(None)) + pos] = st.max(-1) if mode == "max" else st.mean(-1)
    return out

def ref_unfold(x, k, s, p, d, pad_value=0.0):
    N, C = x.shape[:2]
    xp = np.pad(x, [(0, 0), (0, 0), (p[0], p[0]), (p[1], p[1])], mode="constant", constant_values=pad_value)
    oh = lattice.conv_out(x.shape[2], k[0], s[0], p[0], d[0]); ow = lattice.conv_out(x.shape[3], k[1], s[1], p[1], d[1])
    if oh < 1 or ow < 1: raise ValueError("empty output")
    out = np.zeros((N, C * k[0] * k[1], oh * ow))
    for c in range(C):
        for i in range(k[0]):
            for j in range(k[1]):
                row = (c * k[0] + i) * k[1] + j          # channel-major kernel layout
                for a in range(oh):
                    for b in range(ow):
                        out[:, row, a * ow + b] = xp[:, c, a * s[0] + i * d[0], b * s[1] + j * d[1]]   # row-major blocks
    return out

def _b2(v):
    return tuple(np.broadcast_to(v, 2).tolist())

def run_ref(case, arrays):
    """reference result as float64 ndarray (or dict with 'out' and buffers for batch-norm)."""
    t = T(); TF = t.nn.functional
    op, A = case["op"], case.get("args") or {}
    tt = [t.from_numpy(np.array(a, copy=True)) for a in arrays]
    x = tt[0]
    red = A.get("reduction", "none") if case.get("form") == "layer" else "none"
    if red == "default": red = "mean"
    if op in ("relu", "selu", "tanh", "sigmoid"):
        return {"relu": TF.relu, "selu": TF.selu, "tanh": t.tanh, "sigmoid": t.sigmoid}[op](x).numpy()
    if op == "leaky_relu":
        return TF.leaky_relu(x, A["slope"] if A.get("slope") is not None else 0.01).numpy()
    if op in ("softmax", "log_softmax"):
        return getattr(t, op)(x, A["dim"]).numpy()
    if op == "mse": return TF.mse_loss(tt[0], tt[1], reduction=red).numpy()
    if op == "nll": return TF.nll_loss(tt[0], tt[1], reduction=red).numpy()
    if op == "ce": return TF.cross_entropy(tt[0], tt[1], reduction=red).numpy()
    if op == "bce": return TF.binary_cross_entropy(tt[0], tt[1], reduction=red).numpy()
    if op == "bce_logits": return TF.binary_cross_entropy_with_logits(tt[0], tt[1], reduction=red).numpy()
    if op == "linear":
        if tt[0].ndim != 2: raise ValueError("documented input is (batch_size, input_size)")
        return TF.linear(tt[0], tt[1], tt[2] if len(tt) > 2 else None).numpy()
    if op in ("conv1d", "conv2d"):
        nd = 1 if op == "conv1d" else 2
        g = lambda k, dflt: tuple(np.broadcast_to(_tup(A.get(k, dflt)), nd).tolist())
        if "kernel_size" in A and tuple(np.broadcast_to(_tup(A["kernel_size"]), nd).tolist()) != tuple(arrays[1].shape[2:]):
            raise harness.HarnessError("kernel_size disagrees with the weight operand")
        return getattr(TF, op)(tt[0], tt[1], tt[2] if len(tt) > 2 else None, stride=g("stride", 1), padding=g("padding", 0), dilation=g("dilation", 1)).numpy()
    if op in ("max_pool1d", "max_pool2d", "avg_pool1d", "avg_pool2d"):
        nd = 1 if op.endswith("1d") else 2
        k = tuple(np.broadcast_to(_tup(A["kernel_size"]), nd).tolist())
        s = tuple(np.broadcast_to(_tup(A["stride"]), nd).tolist()) if A.get("stride") is not None else k
        p = tuple(np.broadcast_to(_tup(A.get("padding", 0)), nd).tolist())
        d = tuple(np.broadcast_to(_tup(A.get("dilation", 1)), nd).tolist())
        if arrays[0].ndim != nd + 2: raise ValueError("wrong rank")
        mode = "max" if op.startswith("max") else "avg"
        r = ref_pool(arrays[0], k, s, p, d, mode)
        # cross-validate the definitional reference against torch wherever torch accepts the configuration
        tr = None
        try:
            if mode == "max": tr = getattr(TF, op)(x, k, s, p, d).numpy()
            elif all(di == 1 for di in d): tr = getattr(TF, op)(x, k, s, p, count_include_pad=True).numpy()
        except Exception:
            tr = None
        if tr is not None and (tr.shape != r.shape or not np.allclose(tr, r, rtol=1e-12, atol=1e-12)):
            raise harness.HarnessError(f"definitional pooling reference disagrees with torch on {case}")
        return r
    if op == "unfold":
        if arrays[0].ndim != 4: raise ValueError("wrong rank")
        k, s, p, d = _b2(_tup(A["kernel_size"])), _b2(_tup(A.get("stride", 1))), _b2(_tup(A.get("padding", 0))), _b2(_tup(A.get("dilation", 1)))
        r = ref_unfold(arrays[0], k, s, p, d, A.get("pad_value", 0.0))
        if A.get("pad_value", 0.0) == 0.0:
            tr = TF.unfold(x, k, dilation=d, padding=p, stride=s).numpy()
            if tr.shape != r.shape or not np.allclose(tr, r, rtol=0, atol=0):
                raise harness.HarnessError(f"definitional unfold reference disagrees with torch on {case}")
        return r
    if op == "fold":
        k, s, p, d = _b2(_tup(A["kernel_size"])), _b2(_tup(A.get("stride", 1))), _b2(_tup(A.get("padding", 0))), _b2(_tup(A.get("dilation", 1)))
        return TF.fold(x, _b2(_tup(A["output_size"])), k, dilation=d, padding=p, stride=s).numpy()
    if op == "batch_norm":
        i = 1; gamma = beta = rm = rv = None
        if A["affine"] is True: gamma, beta = tt[i], tt[i + 1]; i += 2
        elif A["affine"] == "w": gamma = tt[i]; i += 1
        elif A["affine"] == "b": beta = tt[i]; i += 1
        if A["stats"]: rm, rv = tt[i].clone(), tt[i + 1].clone(); i += 2
        training = A["training"] or not A["stats"]      # without running statistics batch statistics are always used
        out = TF.batch_norm(x, rm, rv, gamma, beta, training=training, momentum=A.get("momentum", 0.1), eps=A["eps"])
        res = {"out": out.numpy()}
        if A["stats"]: res["running_mean"], res["running_var"] = rm.numpy(), rv.numpy()
        return res
    if op == "dropout":
        xa = arrays[0]
        if not A.get("training", True): return xa.copy()
        p = A.get("p", 0.5)
        u = np.array(A["u"][: xa.size], dtype=np.float64).reshape(xa.shape)
        # the statement fixes the distribution, not the rule that turns a uniform draw into the decision:
        # convention "A" keeps where u > p, convention "B" keeps where u < 1 - p (C06 accepts either)
        keep = ((u > p) if A.get("conv", "A") == "A" else (u < 1 - p)).astype(np.float64)
        return xa * keep / (1 - p) if p < 1 else xa * 0.0
    if op == "flatten_layer":
        return t.flatten(x, A.get("start_dim", 1), A.get("end_dim", -1)).numpy()
    raise harness.HarnessError(f"unknown nn op {op}")

# ----------------------------------------------------------------------------- lattices
def _spell(v, how):
    """how: 'int' (only if all equal), 'tuple', 'list'"""
    return list(v) if how != "int" else v[0]

def geoms1d(tier, pool=False):
    Ls = (2, 3, 4) if tier == "quick" else (1, 2, 3, 4, 5)
    out = []
    for L, k, s, p, d in itertools.product(Ls, (1, 2, 3), (1, 2, 3), (0, 1, 2), (1, 2)):
        if pool and p > (d * (k - 1) + 1) / 2: continue
        out.append((L, k, s, p, d, lattice.conv_out(L, k, s, p, d) >= 1))
    return out

def geoms2d(tier, pool=False, grad=False):
    g1 = geoms1d(tier, pool)
    if grad:
        g1 = [g for g in g1 if g[0] <= 3 or (g[1] >= 2 and g[2] <= 2)]
    out = []
    if tier == "quick":
        base = [g for g in g1 if g[0] in (2, 3, 4)]
        for g in base:                       # axes tied
            out.append((g, g))
        fixed = [(3, 2, 1, 0, 1, True), (4, 3, 2, 1, 1, True), (2, 1, 3, 0, 2, True)]
        for g in base:                       # one axis fixed, both orders
            for f in fixed:
                if pool and f[3] > (f[4] * (f[1] - 1) + 1) / 2: continue
                out.append((g, f)); out.append((f, g))
    else:
        for a in g1:
            for b in g1:
                out.append((a, b))
    return out

def cases(tier, what="forward"):
    """what: 'forward' (C06, accept and reject side) or 'grad' (C02, accepted only)."""
    fw = what == "forward"
    out = []
    def add(op, shapes, args=None, pats=None, form="fn"):
        c = {"op": op, "form": form, "shapes": [list(s) for s in shapes], "args": args or {}}
        if pats: c["pats"] = pats
        out.append(c)
    S = lattice.shapes(3) if tier == "quick" or not fw else lattice.shapes(4)
    # --- activations
    for s in S:
        for form in ("fn", "layer"):
            for pat in ("generic", "with_zeros"):
                for o in ("relu", "selu", "tanh", "sigmoid"):
                    add(o, [s], pats=[pat], form=form)
                for sl in (None, 0.01, 0.2, 0, 1, -0.5, 1.5):
                    add("leaky_relu", [s], {"slope": sl}, pats=[pat], form=form)
    # --- softmax family: every rank 1-4 shape x every dim
    SM = [s for s in (lattice.shapes(3) + [(2, 3, 2, 2), (1, 2, 1, 3), (2, 1, 3, 1)] + (list(itertools.product((1, 2, 3), repeat=4)) if tier != "quick" else [])) if len(s) >= 1]
    seen = set()
    for s in SM:
        if s in seen: continue
        seen.add(s)
        for d in lattice.dims(len(s)):
            for o in ("softmax", "log_softmax"):
                add(o, [s], {"dim": d}, pats=["logits"])
                if len(s) <= 2: add(o, [s], {"dim": d}, pats=["logits"], form="layer")
                if fw and len(s) >= 2: add(o, [s], {"dim": d}, pats=[f"scales:{d}"])      # slices on very different scales
    # --- losses
    reds = ["none", "sum", "mean", "default"]
    for s in (lattice.shapes(2) + [(2, 3, 2), (3, 1, 2)]) if tier == "quick" else lattice.shapes(3):
        add("mse", [s, s]); add("bce", [s, s], pats=["prob", "target01"]); add("bce_logits", [s, s], pats=["logits", "target01"])
        for tg in ("target:0.0", "target:1.0", "target:0.3"):
            add("bce", [s, s], pats=["prob", tg]); add("bce_logits", [s, s], pats=["logits", tg])
        if not fw and len(s) <= 2:
            # gradient lattice only: the library accepts such targets (torch asks for a float tensor), and whatever value the
            # forward computes from them, the backward must be its derivative
            for k, tdt in enumerate(("uint8", "bool", "int64", "int8")):
                add("bce", [s, s], {"reduction": reds[k]}, pats=["prob", "target01:" + tdt], form=("fn", "layer")[k % 2])
                add("bce_logits", [s, s], {"reduction": reds[(k + 1) % 4]}, pats=["logits", "target01:" + tdt], form=("layer", "fn")[k % 2])
        for r in reds:
            add("mse", [s, s], {"reduction": r}, form="layer")
            add("bce", [s, s], {"reduction": r}, pats=["prob", "target01"], form="layer")
            add("bce_logits", [s, s], {"reduction": r}, pats=["logits", "target:0.3"], form="layer")
    if fw:
        add("mse", [(2, 3), (3, 2)]); add("mse", [(2, 3), (2,)])     # shape mismatch -> documented raise
    for N in (1, 2, 3):
        for C in (1, 2, 3, 4):
            if tier == "quick" and not fw and C == 4 and N == 3: continue
            for code in range(C ** N):
                lab = f"labels:{C}:{code}"
                add("nll", [(N, C), (N,)], pats=["logits", lab]); add("ce", [(N, C), (N,)], pats=["logits", lab])
                if fw and code == 0 and C >= 2:       # a masked (-inf) class that is not the target: the loss stays finite
                    for r in reds:
                        add("nll", [(N, C), (N,)], {"reduction": r}, pats=["masked_last", lab], form="layer")
                        add("ce", [(N, C), (N,)], {"reduction": r}, pats=["masked_last", lab], form="layer")
                    add("nll", [(N, C), (N,)], pats=["masked_last", lab]); add("ce", [(N, C), (N,)], pats=["masked_last", lab])
                if code % 3 == 0 or fw:
                    for r in reds:
                        add("nll", [(N, C), (N,)], {"reduction": r}, pats=["logits", lab], form="layer")
                        add("ce", [(N, C), (N,)], {"reduction": r}, pats=["logits", lab], form="layer")
    # --- linear / Linear / Neuron
    for N, i, o in itertools.product((1, 2, 3), repeat=3):
        for bias in (False, True):
            shp = [(N, i), (o, i)] + ([(o,)] if bias else [])
            add("linear", shp); add("linear", shp, form="layer")
            if o == 1: add("linear", shp, form="neuron")
            # one operand all zeros in turn (a bias after zeros_, a zero input): present-but-zero is not "absent"
            for z in range(len(shp)):
                if N == 3 and z < 2: continue
                zp = ["zeros" if j == z else "generic" for j in range(len(shp))]
                add("linear", shp, pats=zp); add("linear", shp, pats=zp, form="layer")
                if o == 1: add("linear", shp, pats=zp, form="neuron")
    if fw:
        add("linear", [(2, 3), (2, 2)]); add("linear", [(2, 3), (2, 2), (2,)])                    # in_features mismatch -> raise
    # --- conv1d
    NC = [(1, 1, 1), (2, 1, 2), (1, 2, 1), (2, 2, 2)] if tier != "quick" or fw else [(1, 1, 1), (2, 2, 1), (1, 1, 2), (2, 2, 2)]
    for (L, k, s, p, d, ok) in geoms1d(tier):
        if not ok and not fw: continue
        for (N, Ci, Co) in NC:
            for bias in (False, True):
                if not fw and bias and (N, Ci, Co) not in ((2, 2, 2), (1, 1, 1)): continue
                shp = [(N, Ci, L), (Co, Ci, k)] + ([(Co,)] if bias else [])
                add("conv1d", shp, {"stride": s, "padding": p, "dilation": d})
                if bias and s == 1 and d == 1:
                    add("conv1d", shp, {"stride": s, "padding": p, "dilation": d}, pats=["generic", "generic", "zeros"])
                    add("conv1d", shp, {"kernel_size": k, "stride": s, "padding": p, "dilation": d}, pats=["generic", "generic", "zeros"], form="layer")
                if (N, Ci, Co) in ((2, 2, 2), (1, 1, 1)):
                    add("conv1d", shp, {"kernel_size": k, "stride": s, "padding": p, "dilation": d}, form="layer")
    if fw:
        # in-channel mismatches (incl. one side with a single channel, which a broadcasting contraction would swallow) -> raise
        for (cx, cw) in ((2, 1), (1, 2), (3, 2), (3, 1), (1, 3)):
            add("conv1d", [(2, cx, 4), (2, cw, 2)], {"stride": 1, "padding": 0, "dilation": 1})
            add("conv1d", [(2, cx, 4), (2, cw, 2), (2,)], {"stride": 1, "padding": 1, "dilation": 1})
            add("conv2d", [(2, cx, 3, 3), (2, cw, 2, 2)], {"stride": 1, "padding": 0, "dilation": 1})
            add("conv2d", [(1, cx, 3, 4), (3, cw, 2, 1), (3,)], {"stride": [1, 2], "padding": [1, 0], "dilation": 1})
        add("linear", [(2, 1), (2, 3)]); add("linear", [(2, 3), (2, 1), (2,)])              # in_features mismatch with a size-1 side
        add("conv1d", [(1, 2, 4), (1, 1, 2)], {"stride": 1, "padding": 0, "dilation": 1})          # channel mismatch -> raise
        add("conv1d", [(1, 1, 4), (1, 1, 2)])                                                      # all defaults
        add("conv1d", [(1, 1, 4), (1, 1, 2)], {"kernel_size": 2}, form="layer")
    # --- pooling 1d
    for (L, k, s, p, d, ok) in geoms1d(tier, pool=True):
        if not ok and not fw: continue
        for (N, C) in ((1, 1), (2, 2)) if not fw else ((1, 1), (2, 1), (1, 2), (2, 2)):
            for o in ("max_pool1d", "avg_pool1d"):
                for pat in (("generic",) if o == "avg_pool1d" else ("generic", "ties")):
                    add(o, [(N, C, L)], {"kernel_size": k, "stride": s, "padding": p, "dilation": d}, pats=[pat])
                if (N, C) == (2, 2):
                    add(o, [(N, C, L)], {"kernel_size": k, "stride": s, "padding": p, "dilation": d}, form="layer")
                    if s == k and ok:
                        add(o, [(N, C, L)], {"kernel_size": k, "padding": p, "dilation": d})          # default stride = kernel
                        add(o, [(N, C, L)], {"kernel_size": k, "padding": p, "dilation": d}, form="layer")
    if fw:
        for o in ("max_pool1d", "avg_pool1d"):
            add(o, [(2, 3)], {"kernel_size": 2}); add(o, [(1, 1, 2, 2)], {"kernel_size": 2})             # wrong rank -> raise
        for o in ("max_pool2d", "avg_pool2d"):
            add(o, [(1, 2, 3)], {"kernel_size": 2})
        add("unfold", [(1, 2, 3)], {"kernel_size": 2})
    # --- 2-d geometry: conv2d, pooling 2d, unfold, fold
    spell_cycle = ["tuple", "int", "list"]
    n = 0
    for (ga, gb) in geoms2d(tier, grad=not fw):
        ok = ga[5] and gb[5]
        if not ok and not fw: continue
        H, W = ga[0], gb[0]; k = (ga[1], gb[1]); s = (ga[2], gb[2]); p = (ga[3], gb[3]); d = (ga[4], gb[4])
        n += 1
        def sp(v, j):
            how = spell_cycle[(n + j) % 3]
            return v[0] if (how == "int" and v[0] == v[1]) else list(v)
        args = {"stride": sp(s, 0), "padding": sp(p, 1), "dilation": sp(d, 2)}
        ncs = [(1, 1, 1), (2, 2, 2)] if fw else ([(2, 2, 1)] if n % 2 else [(1, 1, 2)])
        for (N, Ci, Co) in ncs:
            bias = ((n + N) % 2 == 0) if fw else ((n // 2) % 2 == 0)     # (n + N) is always odd on the gradient lattice's (N, n) pairs
            shp = [(N, Ci, H, W), (Co, Ci) + k] + ([(Co,)] if bias else [])
            add("conv2d", shp, dict(args))
            if bias and n % 3 == 0:
                add("conv2d", shp, dict(args), pats=["generic", "generic", "zeros"])
            if fw or n % 4 in (1, 2):          # 1: with bias, 2: without (see the parity of `bias` above)
                add("conv2d", shp, dict(args, kernel_size=sp(k, 1)), form="layer")
            if (fw or n % 3 == 0):
                add("unfold", [(N, Ci, H, W)], dict(args, kernel_size=sp(k, 0)))
                if fw or n % 2 == 0:
                    add("unfold", [(N, Ci, H, W)], dict(args, kernel_size=sp(k, 2)), form="layer")
                if fw:
                    if n % 5 == 0: add("unfold", [(N, Ci, H, W)], dict(args, kernel_size=sp(k, 0), pad_value=-1.5))
                if ok:
                    L = lattice.conv_out(H, k[0], s[0], p[0], d[0]) * lattice.conv_out(W, k[1], s[1], p[1], d[1])
                    add("fold", [(N, Ci * k[0] * k[1], L)], dict(args, kernel_size=sp(k, 0), output_size=[H, W]))
                    if fw or n % 2 == 0:
                        add("fold", [(N, Ci * k[0] * k[1], L)], dict(args, kernel_size=sp(k, 1), output_size=(H if H == W else [H, W])), form="layer")
                    if fw and n % 3 == 0:
                        # a block count that does not match the geometry (one off, a further row / column of blocks, twice as many)
                        # has no folding: the call must be refused, not folded from a subset of the blocks
                        lH = lattice.conv_out(H, k[0], s[0], p[0], d[0]); lW = L // lH
                        for Lbad in sorted({L + 1, L - 1, L + lH, L + lW, 2 * L} - {0, L}):
                            if N * Ci * k[0] * k[1] * Lbad > 1900: continue        # the value alphabet holds 1990 separated values
                            add("fold", [(N, Ci * k[0] * k[1], Lbad)], dict(args, kernel_size=sp(k, 0), output_size=[H, W]), form="fn" if Lbad % 2 else "layer")
    n = 0
    for (ga, gb) in geoms2d(tier, pool=True, grad=not fw):
        ok = ga[5] and gb[5]
        if not ok and not fw: continue
        H, W = ga[0], gb[0]; k = (ga[1], gb[1]); s = (ga[2], gb[2]); p = (ga[3], gb[3]); d = (ga[4], gb[4])
        n += 1
        def sp(v, j):
            how = spell_cycle[(n + j) % 3]
            return v[0] if (how == "int" and v[0] == v[1]) else list(v)
        args = {"kernel_size": sp(k, 0), "stride": sp(s, 1), "padding": sp(p, 2), "dilation": sp(d, 0)}
        for o in ("max_pool2d", "avg_pool2d"):
            NCs = ((1, 1), (2, 2)) if fw else (((1, 2),) if n % 2 else ((2, 1),))
            for (N, C) in NCs:
                add(o, [(N, C, H, W)], dict(args), pats=["generic"])
                if o == "max_pool2d" and n % 2 == 0: add(o, [(N, C, H, W)], dict(args), pats=["ties"])
                if not fw and n % 3 == 0:
                    add(o, [(N, C, H, W)], dict(args), form="layer")
                    if s == k:
                        a2 = dict(args); del a2["stride"]
                        add(o, [(N, C, H, W)], a2, form="layer")
                if fw and (N, C) == (2, 2):
                    add(o, [(N, C, H, W)], dict(args), form="layer")
                    if s == k and ok:
                        a2 = dict(args); del a2["stride"]
                        add(o, [(N, C, H, W)], a2); add(o, [(N, C, H, W)], a2, form="layer")
    # --- infinite entries (additive -inf masks, overflowed scores): the element-wise definitions still apply (relu(-inf) = 0, ...)
    if fw:
        for sh in ((3,), (2, 3)):
            for o in ("relu", "tanh", "sigmoid", "selu"):
                add(o, [sh], pats=["with_inf"]); add(o, [sh], pats=["with_inf"], form="layer")
            for sl in (0.01, 0.2):
                add("leaky_relu", [sh], {"slope": sl}, pats=["with_inf"])
    # --- max pooling windows that contain no real element at all (padding up to half the DILATED kernel allows it): -inf, as the
    #     reference gives; and inputs whose every value is very negative (padding must still never win)
    if fw:
        add("max_pool1d", [(1, 1, 2)], {"kernel_size": 2, "stride": 1, "padding": 1, "dilation": 3})
        add("max_pool1d", [(2, 2, 1)], {"kernel_size": 2, "stride": 1, "padding": 1, "dilation": 2}, form="layer")
        add("max_pool2d", [(1, 1, 1, 3)], {"kernel_size": [2, 1], "stride": 1, "padding": [1, 0], "dilation": [2, 1]})
        add("max_pool2d", [(1, 2, 2, 1)], {"kernel_size": [2, 2], "stride": 1, "padding": [1, 1], "dilation": [3, 2]}, form="layer")
        for o, sh in (("max_pool1d", (1, 2, 4)), ("max_pool2d", (1, 1, 3, 3))):
            add(o, [sh], {"kernel_size": 2, "stride": 1, "padding": 1, "dilation": 1}, pats=["offset_neg"])
    # --- extents around the limits of narrow integer types (index arithmetic in 8 / 16 bits), forward lattice only
    if fw:
        for L in (127, 128, 255, 256, 257):
            for (k, p) in ((3, 1), (2, 2)):
                add("conv1d", [(1, 1, L), (1, 1, k)], {"stride": 1, "padding": p, "dilation": 1})
                add("max_pool1d", [(1, 1, L)], {"kernel_size": k, "stride": 1, "padding": p // 2 if k == 2 else p, "dilation": 1})
                add("avg_pool1d", [(1, 1, L)], {"kernel_size": k, "stride": 2, "padding": 1, "dilation": 1})
                add("conv2d", [(1, 1, L, 2), (1, 1, k, 1)], {"stride": 1, "padding": [p, 0], "dilation": 1})
                add("conv2d", [(1, 2, 2, L), (2, 2, 1, k), (2,)], {"stride": [1, 2], "padding": [0, p], "dilation": 1})
                add("unfold", [(1, 1, L, 2)], {"kernel_size": [k, 1], "stride": 1, "padding": [p, 0], "dilation": 1})
                add("max_pool2d", [(1, 1, 2, L)], {"kernel_size": [1, k], "stride": 1, "padding": [0, 1], "dilation": 1})
                add("avg_pool2d", [(1, 1, L, 2)], {"kernel_size": [k, 2], "stride": [2, 1], "padding": [1, 1], "dilation": 1})
    # --- batch norm
    bshapes = [(2, 2), (3, 1), (2, 3), (2, 2, 2), (3, 1, 2), (1, 2, 3), (2, 2, 2, 1), (1, 2, 2, 2), (2, 1, 1, 3)]
    for s in bshapes:
        C = s[1]
        for training, affine, stats in itertools.product((True, False), repeat=3):
            for eps in (1e-5, 0.1):
                for mom in ((0.1,) if not fw else (0.1, 0.5, 1.0)):
                    shp = [s] + ([(C,), (C,)] if affine else []) + ([(C,), (C,)] if stats else [])
                    pats = ["generic"] + (["generic", "generic"] if affine else []) + (["generic", "var"] if stats else [])
                    A = {"training": training, "affine": affine, "stats": stats, "eps": eps, "momentum": mom}
                    add("batch_norm", shp, A, pats=pats)
                    lf = "layer2d" if len(s) == 4 else "layer1d"
                    add("batch_norm", shp, A, pats=pats, form=lf)
                    if affine and mom == 0.1:    # functional form with only one of weight / bias
                        for one in ("w", "b"):
                            A1 = dict(A, affine=one)
                            add("batch_norm", [s, (C,)] + ([(C,), (C,)] if stats else []), A1, pats=["generic", "generic"] + (["generic", "var"] if stats else []))
                    if fw and mom == 0.1:        # data with a large mean and unit spread
                        add("batch_norm", shp, A, pats=["offset"] + pats[1:]); add("batch_norm", shp, A, pats=["offset"] + pats[1:], form=lf)
    # --- dropout (controlled source: every keep/drop pattern on 3 elements, boundary excluded)
    for p in (0.0, 0.3, 0.5, 1.0):
        for mask in itertools.product((0, 1), repeat=3):
            if p == 0.0: u = [0.25 + 0.5 * m for m in mask]
            elif p == 1.0: u = [0.25 + 0.5 * m for m in mask]
            else: u = [((max(p, 1 - p) + 1) / 2) if m else min(p, 1 - p) / 2 for m in mask]     # beyond both thresholds p and 1-p
            add("dropout", [(3,)], {"p": p, "u": u, "training": True})
        add("dropout", [(2, 2)], {"p": p, "u": [0.9, 0.1, 0.6, 0.2], "training": True})
        add("dropout", [(3,)], {"p": p, "u": [0.1, 0.1, 0.1], "training": False})
    add("dropout", [(3,)], {"u": [0.7, 0.2, 0.9], "training": True})
    # --- Flatten layer
    if True:
        for s in [(2, 3), (2, 3, 2), (1, 2, 2, 3)]:
            add("flatten_layer", [s])
            for a in lattice.dims(len(s)):
                for b in lattice.dims(len(s)):
                    add("flatten_layer", [s], {"start_dim": a, "end_dim": b})
    return out

DIFF = {"nll": [0], "ce": [0], "bce": [0], "bce_logits": [0]}   # mse is the symmetric loss: both arguments

def diff_idx(case, arrays):
    """indices of differentiable inputs of a case"""
    op = case["op"]
    if op in DIFF: return DIFF[op]
    if op == "batch_norm":
        a = case["args"]["affine"]
        return [0] + ([1, 2] if a is True else [1] if a else [])
    return [i for i, a in enumerate(arrays) if np.asarray(a).dtype.kind == "f"]
