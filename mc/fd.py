"""Numerical Jacobian oracle: 4th-order central differences of the library's own float64 forward."""
import numpy as np

def jacobian(f, xs, i, h0=1e-4):
    """J[out_flat, in_flat] of out=f(xs) with respect to xs[i]; xs are float64 ndarrays."""
    x = np.asarray(xs[i], dtype=np.float64)
    y0 = np.asarray(f(xs), dtype=np.float64)
    J = np.zeros((y0.size, x.size))
    flat = x.reshape(-1)
    for j in range(x.size):
        h = h0 * max(1.0, abs(flat[j]))
        def at(delta):
            xp = flat.copy(); xp[j] += delta
            ys = list(xs); ys[i] = np.asarray(xp.reshape(x.shape), dtype=np.float64)
            return np.asarray(f(ys), dtype=np.float64).reshape(-1)
        J[:, j] = (-at(2 * h) + 8 * at(h) - 8 * at(-h) + at(-2 * h)) / (12 * h)
    return J

def jacobian_coarse(f, xs, i, h=2.0 ** -7):
    x = np.asarray(xs[i], dtype=np.float64)
    y0 = np.asarray(f(xs), dtype=np.float64)
    J = np.zeros((y0.size, x.size))
    flat = x.reshape(-1)
    for j in range(x.size):
        def at(delta):
            xp = flat.copy(); xp[j] += delta
            ys = list(xs); ys[i] = np.asarray(xp.reshape(x.shape), dtype=np.float64)
            return np.asarray(f(ys), dtype=np.float64).reshape(-1)
        J[:, j] = (at(h) - at(-h)) / (2 * h)
    return J

def one_sided(f, xs, i, d, h=1e-5):
    """(D-, D+) directional derivatives of f along direction d (array shaped like xs[i]); 2nd-order one-sided."""
    def at(t):
        ys = list(xs); ys[i] = np.asarray(xs[i] + t * d, dtype=np.float64)
        return np.asarray(f(ys), dtype=np.float64).reshape(-1)
    y0 = at(0.0)
    dp = (-3 * y0 + 4 * at(h) - at(2 * h)) / (2 * h)
    dm = (3 * y0 - 4 * at(-h) + at(-2 * h)) / (2 * h)
    return dm, dp

def close(a, b, rtol=1e-7, atol=1e-9):
    a = np.asarray(a, dtype=np.float64); b = np.asarray(b, dtype=np.float64)
    if a.shape != b.shape:
        return False
    scale = max(1.0, float(np.max(np.abs(b))) if b.size else 1.0)
    return bool(np.all(np.abs(a - b) <= rtol * scale + atol))
