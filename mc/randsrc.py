"""E3 controlled environment: the library's only nondeterminism is NumPy's legacy global generator
and Python's `random` (exactly what manual_seed seeds).  `controlled()` replaces those entry points
by functions defined from two scripted primitive streams, u in [0,1) and z ~ "N(0,1)", plus scripted
permutations - independent of *which* entry point the code uses.  An un-modelled entry point raises
HarnessError (never a silent pass)."""
import contextlib, random as pyrandom
import numpy as np
from . import harness

class Source:
    def __init__(self, u=None, z=None, perms=None, cycle=False):
        self.u, self.z, self.perms, self.cycle = u, z, perms, cycle
        self.n_u = self.n_z = self.n_perm = 0
        self.calls = []

    def _take(self, stream, k, n):
        if callable(stream):
            return np.array([stream(k + i) for i in range(n)], dtype=np.float64)
        if stream is None:
            raise harness.HarnessError("random draw from a stream that was not scripted")
        if np.isscalar(stream):
            return np.full(n, float(stream))
        L = len(stream)
        if k + n > L and not self.cycle:
            raise harness.HarnessError(f"scripted random stream exhausted ({k}+{n}>{L})")
        return np.array([stream[(k + i) % L] for i in range(n)], dtype=np.float64)

    def take_u(self, shape):
        n = int(np.prod(shape, dtype=int)) if shape is not None else 1
        r = self._take(self.u, self.n_u, n); self.n_u += n
        return r.reshape(shape) if shape is not None else float(r[0])

    def take_z(self, shape):
        n = int(np.prod(shape, dtype=int)) if shape is not None else 1
        r = self._take(self.z, self.n_z, n); self.n_z += n
        return r.reshape(shape) if shape is not None else float(r[0])

    def take_perm(self, n):
        if self.perms is not None:
            if callable(self.perms): p = list(self.perms(self.n_perm, n))
            else:
                if self.n_perm >= len(self.perms) and not self.cycle:
                    raise harness.HarnessError("scripted permutations exhausted")
                p = list(self.perms[self.n_perm % len(self.perms)])
            self.n_perm += 1
            if sorted(p) != list(range(n)):
                raise harness.HarnessError(f"scripted permutation {p} does not fit length {n}")
            return p
        # Fisher-Yates from the u stream
        p = list(range(n))
        for i in range(n - 1, 0, -1):
            j = int(self.take_u(None) * (i + 1))
            p[i], p[j] = p[j], p[i]
        self.n_perm += 1
        return p

def _shape(size):
    if size is None: return None
    if isinstance(size, (int, np.integer)): return (int(size),)
    return tuple(int(s) for s in size)

@contextlib.contextmanager
def controlled(u=None, z=None, perms=None, cycle=False):
    src = Source(u, z, perms, cycle)
    R = np.random
    def rec(name):
        src.calls.append(name)
    def rand(*shape): rec("rand"); return src.take_u(tuple(shape) if shape else None)
    def random_sample(size=None): rec("random_sample"); return src.take_u(_shape(size))
    def uniform(low=0.0, high=1.0, size=None):
        rec("uniform")
        if size is None and (np.ndim(low) or np.ndim(high)): size = np.broadcast(low, high).shape
        return low + (np.asarray(high) - low) * src.take_u(_shape(size))
    def randn(*shape): rec("randn"); return src.take_z(tuple(shape) if shape else None)
    def standard_normal(size=None): rec("standard_normal"); return src.take_z(_shape(size))
    def normal(loc=0.0, scale=1.0, size=None):
        rec("normal")
        if size is None and (np.ndim(loc) or np.ndim(scale)): size = np.broadcast(loc, scale).shape
        return loc + scale * src.take_z(_shape(size))
    def randint(low, high=None, size=None, dtype=int):
        rec("randint")
        if high is None: low, high = 0, low
        uu = src.take_u(_shape(size))
        r = low + np.floor(np.asarray(uu) * (high - low))
        return np.asarray(r).astype(dtype) if size is not None else dtype(r) if isinstance(dtype, type) else int(r)
    def shuffle(x):
        rec("shuffle")
        p = src.take_perm(len(x))
        if isinstance(x, np.ndarray): x[:] = x[p]
        else:
            c = list(x)
            for i, j in enumerate(p): x[i] = c[j]
    def permutation(x):
        rec("permutation")
        if isinstance(x, (int, np.integer)):
            return np.array(src.take_perm(int(x)))
        a = np.array(x); return a[src.take_perm(len(a))]
    def binomial(n, p, size=None):
        rec("binomial")
        if np.any(np.asarray(n) != 1): raise harness.HarnessError("binomial with n != 1 is not modelled")
        return (src.take_u(_shape(size)) < p).astype(int)
    def choice(a, size=None, replace=True, p=None):
        rec("choice")
        if p is not None or not replace: raise harness.HarnessError("choice(p=/replace=False) is not modelled")
        arr = np.arange(a) if isinstance(a, (int, np.integer)) else np.asarray(a)
        idx = np.floor(np.asarray(src.take_u(_shape(size))) * len(arr)).astype(int)
        return arr[idx]
    modelled = dict(rand=rand, random_sample=random_sample, random=random_sample, ranf=random_sample, sample=random_sample,
                    uniform=uniform, randn=randn, standard_normal=standard_normal, normal=normal, randint=randint,
                    shuffle=shuffle, permutation=permutation, binomial=binomial, choice=choice,
                    seed=lambda *a, **k: None)
    keep = {"get_state", "set_state", "get_bit_generator", "set_bit_generator", "BitGenerator", "Generator", "MT19937", "PCG64",
            "PCG64DXSM", "Philox", "SFC64", "SeedSequence", "RandomState", "default_rng", "test", "bit_generator", "mtrand"}
    saved = {}
    def stub(name):
        def f(*a, **k):
            raise harness.HarnessError(f"un-modelled random entry point numpy.random.{name}")
        return f
    for name in dir(R):
        if name.startswith("_"): continue
        obj = getattr(R, name)
        if not callable(obj) or isinstance(obj, type): continue
        if name in modelled:
            saved[name] = obj; setattr(R, name, modelled[name])
        elif name in ("default_rng",):
            saved[name] = obj; setattr(R, name, stub(name))
        elif name not in keep:
            saved[name] = obj; setattr(R, name, stub(name))
    # python's random module
    py_saved = {}
    def py_shuffle(x):
        rec("random.shuffle"); p = src.take_perm(len(x)); c = list(x)
        for i, j in enumerate(p): x[i] = c[j]
    py = dict(random=lambda: (rec("random.random"), src.take_u(None))[1],
              uniform=lambda a, b: (rec("random.uniform"), a + (b - a) * src.take_u(None))[1],
              gauss=lambda mu=0.0, sigma=1.0: (rec("random.gauss"), mu + sigma * src.take_z(None))[1],
              normalvariate=lambda mu=0.0, sigma=1.0: (rec("random.normalvariate"), mu + sigma * src.take_z(None))[1],
              randint=lambda a, b: (rec("random.randint"), a + int(src.take_u(None) * (b - a + 1)))[1],
              randrange=lambda a, b=None: (rec("random.randrange"), (0 if b is None else a) + int(src.take_u(None) * ((a if b is None else b - a))))[1],
              shuffle=py_shuffle, seed=lambda *a, **k: None)
    for name, f in py.items():
        py_saved[name] = getattr(pyrandom, name); setattr(pyrandom, name, f)
    try:
        yield src
    finally:
        for name, obj in saved.items(): setattr(R, name, obj)
        for name, obj in py_saved.items(): setattr(pyrandom, name, obj)
