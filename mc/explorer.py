"""Explicit-state breadth-first exploration of histories on the real implementation.

A state is the event history that reaches it; it is rebuilt on fresh real objects by replay (live
tensors hold closures and cannot be copied).  `World` protocol:

    w = make_world()            fresh world (real objects + reference model), modes reset
    w.enabled() -> [event]      finite menu, canonical order, JSON-able tuples
    w.apply(event, check=True) -> [viol]   step implementation AND model; with check, compare every observable
                                (prefix replays of already-validated histories pass check=False);
                                viol = {"kind": str, "detail": str}
    w.canon() -> hashable       model state + implementation-observable state (incl. hidden residue)

States with equal canon are merged (sound when canon contains every field the implementation
reads later; `merge=False` is the audit mode that checks this).  A state reached by a violating
transition is not extended (its successors would be compared against a diverged model)."""
import time, collections, hashlib
from . import parallel

STRIPES = 64

class Result:
    def __init__(self):
        self.states = 0; self.transitions = 0; self.max_depth = 0; self.complete = True
        self.violations = []          # {"kind","detail","case":{"history":[...]}}
        self.pruned = 0               # violating transitions not extended
        self.samples = []
        self.level_sizes = []
        self.outcomes = 0

def _digest(c):
    return hashlib.blake2b(repr(c).encode(), digest_size=16).digest()

def _expand(make_world, histories, merge):
    """-> (clean successors [(history, canon digest)] locally de-duplicated, #transitions, violations)"""
    succ, viols, ntrans, local = [], [], 0, set()
    for h in histories:
        w = make_world()
        bad = []
        for e in h[:-1]:
            w.apply(e, False)
        if h:
            bad = w.apply(h[-1], True)
        if bad:   # cannot happen for frontier states (they were clean when discovered)
            viols.append((h, [{"kind": "harness:nondeterministic-replay", "detail": repr(bad[:1])}]))
            continue
        for e in w.enabled():
            w2 = make_world()
            for x in h:
                w2.apply(x, False)
            viol = w2.apply(e, True)
            ntrans += 1
            if viol:
                viols.append((h + (e,), viol))
                continue
            c = _digest(w2.canon())
            if merge:
                if c in local:
                    continue
                local.add(c)
            succ.append((h + (e,), c))
    return succ, ntrans, viols

def explore(make_world, depth, merge=True, nproc=None, time_budget=None, max_samples=6, extra_cfg=None):
    t0 = time.time()
    res = Result()
    w0 = make_world()
    seen = {_digest(w0.canon())}
    frontier = [()]
    first_by_kind = collections.OrderedDict()
    counts = collections.Counter()
    for d in range(depth):
        if not frontier:
            break
        if time_budget is not None and time.time() - t0 > time_budget:
            res.complete = False
            break
        chunks = [(frontier[a:b:c],) for (a, b, c) in parallel.stripes(len(frontier), STRIPES)]
        def work(hs, _mw=make_world, _m=merge):
            return _expand(_mw, hs, _m)
        parts = parallel.run_chunks(work, chunks, nproc)
        nxt = []
        for succ, ntrans, viols in parts:       # stripe order is fixed -> deterministic for any worker count
            res.transitions += ntrans
            for h, viol in viols:
                res.pruned += 1
                for v in viol:
                    counts[v["kind"]] += 1
                    lst = first_by_kind.setdefault(v["kind"], [])
                    if len(lst) < 20000:
                        lst.append({"kind": v["kind"], "detail": v.get("detail", ""),
                                    "case": dict(extra_cfg or {}, history=[list(e) for e in h])})
            for h, c in succ:
                if merge:
                    if c in seen:
                        continue
                    seen.add(c)
                else:
                    seen.add((c, h))
                nxt.append(h)
        if nxt:     # samples: a few histories of the deepest completed level (spread over the level)
            step = max(1, len(nxt) // max_samples)
            res.samples = [[list(e) for e in h] for h in nxt[::step][:max_samples]]
        res.level_sizes.append(len(nxt))
        res.max_depth = d + 1
        frontier = nxt
    res.states = len(seen)
    for k, vs in first_by_kind.items():
        res.violations.extend(vs)
    res.violation_counts = dict(counts)
    if not res.samples and frontier:
        res.samples.append([list(e) for e in frontier[0]])
    return res
