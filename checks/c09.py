"""C09 - stability-critical ops stay finite and accurate for large-magnitude inputs.

Element-wise ops (sigmoid, tanh, selu, BCE-with-logits x targets): thorough sweeps EVERY finite
float32 with |x| <= 1e4 (values and gradients); quick sweeps every such float32 whose low 12 mantissa
bits are zero plus +-64 ulps around each overflow/underflow threshold.  Row ops (softmax, log_softmax,
cross-entropy): every row of length 2 and 3 over a 51-value logit grid, every label, every basis
upstream gradient, both dtypes, functional and module forms.  Oracle: stable float64 closed forms
(validated against mpmath in the thorough tier)."""
import itertools
import numpy as np
from mc import harness, engine

EPS32 = float(np.finfo(np.float32).eps)
TOLF = 16 * EPS32
MAXBITS = int(np.array(1e4, dtype=np.float32).view(np.uint32))       # bit pattern of 1e4f
ALPHA = 1.6732632423543772848170429916717
SCALE = 1.0507009873554804934193349852946
GRID = sorted(set([0.0] + [s * v for s in (1, -1) for v in (1e-3, 0.5, 1, 5, 10, 16, 17, 20, 27, 28, 40, 80, 87, 88, 88.5, 89, 100, 104,
                                                            500, 709, 709.5, 710, 745, 1e3, 5e3, 1e4)]))
THRESH = [0.0, 9.0109, 16.6355, 17.3287, 36.7368, 87.3365, 88.72284, 103.2789, 103.9721, 709.7827, 745.1332, 1e4]

# ----------------------------------------------------------------------------- float64 references
def ref_unary(op, x, t=None):
    """-> (value, derivative) in float64, numerically stable"""
    x = x.astype(np.float64); e = np.exp(-np.abs(x))
    if op == "sigmoid":
        s = np.where(x >= 0, 1 / (1 + e), e / (1 + e)); return s, e / (1 + e) ** 2
    if op == "tanh":
        e2 = np.exp(-2 * np.abs(x)); return np.tanh(x), 4 * e2 / (1 + e2) ** 2
    if op == "selu":
        return SCALE * np.where(x > 0, x, ALPHA * np.expm1(np.minimum(x, 0))), SCALE * np.where(x > 0, 1.0, ALPHA * np.exp(np.minimum(x, 0)))
    if op == "bce_logits":
        s = np.where(x >= 0, 1 / (1 + e), e / (1 + e))
        return np.maximum(x, 0) - x * t + np.log1p(e), s - t
    raise harness.HarnessError(op)

def ref_rows(x):
    x = x.astype(np.float64); m = x.max(axis=1, keepdims=True)
    z = np.exp(x - m); s = z / z.sum(axis=1, keepdims=True)
    ls = (x - m) - np.log(z.sum(axis=1, keepdims=True))
    return s, ls

# ----------------------------------------------------------------------------- cases
def unary_cases(tier):
    out = []
    ops = [("sigmoid", None), ("tanh", None), ("selu", None), ("bce_logits", 0.0), ("bce_logits", 1.0), ("bce_logits", 0.3)]
    if tier == "quick":
        for op, t in ops:
            for dt in ("float32", "float64"):
                out.append({"kind": "unary", "op": op, "target": t, "dtype": dt, "mode": "quantised"})
    else:
        CH = 1 << 20
        for op, t in ops:
            for start in range(0, MAXBITS + 1, CH):
                out.append({"kind": "unary", "op": op, "target": t, "dtype": "float32", "mode": "all", "start": start, "n": min(CH, MAXBITS + 1 - start)})
            out.append({"kind": "unary", "op": op, "target": t, "dtype": "float64", "mode": "quantised"})
    return out

def row_cases(tier):
    out = []
    for L in (2, 3):
        for dt in ("float32", "float64"):
            for op in ("softmax", "log_softmax", "ce"):
                for form in ("fn", "layer"):
                    out.append({"kind": "rows", "op": op, "L": L, "dtype": dt, "form": form})
                if op != "ce":
                    out.append({"kind": "rows", "op": op, "L": L, "dtype": dt, "form": "fn", "axis": 0})      # same rows stored as columns
    return out

def xs_for(case):
    if case["mode"] == "all":
        bits = np.arange(case["start"], case["start"] + case["n"], dtype=np.uint32)
        pos = bits.view(np.float32)
    else:
        bits = np.arange(0, MAXBITS + 1, 4096, dtype=np.uint32)
        extra = []
        for th in THRESH:
            b = int(np.array(th, dtype=np.float32).view(np.uint32))
            extra.append(np.arange(max(0, b - 64), min(MAXBITS, b + 64) + 1, dtype=np.uint32))
        pos = np.unique(np.concatenate([bits] + extra)).view(np.float32)
    x = np.concatenate([pos, -pos])
    return x.astype(np.dtype(case["dtype"]))

# ----------------------------------------------------------------------------- judging
def judge(case):
    sg = harness.load(); F = sg.nn.functional
    viol = []
    def v(sym, detail): viol.append({"kind": sym, "detail": detail})
    if case["kind"] == "unary":
        xall = xs_for(case); op = case["op"]
        # the whole set in one tensor, and (quantised mode) each magnitude band on its own: a kernel may choose its code path from
        # the largest entry of the tensor it is handed, so the bands 88 < |x| < 709 etc. must also be seen WITHOUT larger neighbours
        parts = [xall]
        if case["mode"] != "all":
            edges = [0.0, 1.0, 10.0, 44.0, 88.0, 104.0, 355.0, 709.0, 746.0, 1e3, 1.0001e4]
            a = np.abs(xall.astype(np.float64))
            for lo_, hi_ in zip(edges[:-1], edges[1:]):
                for sgn in (1, -1):
                    sel = (a >= lo_) & (a < hi_) & ((xall > 0) if sgn > 0 else (xall <= 0))
                    if sel.any(): parts.append(xall[sel])
        for x in parts:
            if any(vv["kind"].endswith(("nonfinite", "inaccurate")) for vv in viol): break
            T = sg.Tensor(x.copy(), requires_grad=True)
            if op == "bce_logits":
                tg = np.full(x.shape, case["target"], dtype=x.dtype)
                y = F.binary_cross_entropy_with_logits(T, sg.Tensor(tg))
                rv, rd = ref_unary(op, x, float(case["target"]))
            else:
                y = getattr(F, op)(T); rv, rd = ref_unary(op, x)
            y.backward(sg.Tensor(np.ones(x.shape, dtype=x.dtype)))
            val = np.asarray(y.data, dtype=np.float64); grd = np.asarray(T.grad.data, dtype=np.float64)
            tol = TOLF * np.maximum(1.0, np.abs(x.astype(np.float64)))
            name = op + ("" if case["target"] is None else f"[t={case['target']}]")
            for what, got, ref in (("forward", val, rv), ("backward", grd, rd)):
                bad = ~np.isfinite(got)
                if bad.any():
                    i = int(np.argmax(bad)); v(f"{name}:{what}:nonfinite", f"{int(bad.sum())} inputs; e.g. x={x[i]!r} ({case['dtype']}) -> {got[i]}, exact {ref[i]:.9g}")
                err = np.abs(got - ref)
                if what == "backward" and op == "selu":
                    err = np.where(x == 0, 0.0, err)        # kink at 0: any slope between the one-sided derivatives
                    lo, hi = SCALE * min(1.0, ALPHA), SCALE * max(1.0, ALPHA)
                    z = (x == 0) & np.isfinite(got)
                    if z.any() and (np.any(got[z] < lo - 1e-6) or np.any(got[z] > hi + 1e-6)):
                        v(f"{name}:backward:not-a-subgradient-at-0", f"slope {got[z][0]} outside [{lo},{hi}]")
                bad = np.isfinite(got) & (err > tol)
                if bad.any():
                    i = int(np.argmax(np.where(bad, err / tol, 0)))
                    v(f"{name}:{what}:inaccurate", f"{int(bad.sum())} inputs; worst x={x[i]!r} ({case['dtype']}): got {got[i]:.9g}, exact {ref[i]:.9g}, allowed error {tol[i]:.3g}")
        return {"nontrivial": True, "outcome": "ok", "violations": viol, "n": int(xall.size)}
    # ---- rows
    L, op, dt, form = case["L"], case["op"], np.dtype(case["dtype"]).type, case["form"]
    rows_all = np.array(list(itertools.product(GRID, repeat=L)), dtype=dt)
    # the whole grid in one tensor, and the rows below each magnitude cap on their own: a kernel that picks its code path from the
    # largest entry of the tensor it is handed (e.g. "no entry can overflow exp, skip the shift") must also be seen without larger rows
    amax = np.abs(rows_all.astype(np.float64)).max(axis=1)
    total = 0
    for cap in (None, 1.5, 11.0, 45.0, 88.6, 105.0, 709.6, 746.0, 1.5e3):
        rows = rows_all if cap is None else rows_all[amax < cap]
        total += _judge_rows(case, rows, sg, F, v, viol, dt)
        if viol: break
    return {"nontrivial": True, "outcome": "ok", "violations": viol, "n": int(total)}

def _judge_rows(case, rows, sg, F, v, viol, dt):
    L, op, form = case["L"], case["op"], case["form"]
    s, ls = ref_rows(rows)
    tol = TOLF * np.maximum(1.0, np.abs(rows.astype(np.float64)).max(axis=1, keepdims=True))
    name = f"{op}:{form}"
    def report(what, got, ref, tolr):
        got = np.asarray(got, dtype=np.float64)
        bad = ~np.isfinite(got)
        if bad.any():
            i = int(np.argmax(bad.any(axis=-1) if bad.ndim > 1 else bad))
            v(f"{name}:{what}:nonfinite", f"{int(bad.sum())} entries; e.g. logits {rows[i].tolist()} ({case['dtype']})")
        err = np.abs(got - ref); bad = np.isfinite(got) & (err > tolr)
        if bad.any():
            i = int(np.argmax((np.where(bad, err / tolr, 0)).max(axis=-1) if bad.ndim > 1 else np.where(bad, err / tolr, 0)))
            v(f"{name}:{what}:inaccurate", f"{int(bad.sum())} entries; worst logits {rows[i].tolist()} ({case['dtype']}): got {np.asarray(got[i]).tolist()}, exact {np.asarray(ref[i]).tolist()}")
    if op in ("softmax", "log_softmax"):
        ax = case.get("axis", 1)
        lay = (lambda a: np.ascontiguousarray(a.T)) if ax == 0 else (lambda a: a)      # (n, L) rows -> (L, n) columns
        unlay = (lambda a: np.asarray(a).T) if ax == 0 else (lambda a: np.asarray(a))
        if ax == 0: name = f"{op}:dim0"
        mk = (lambda t: getattr(F, op)(t, ax)) if form == "fn" else (lambda t: (sg.nn.Softmax(1) if op == "softmax" else sg.nn.LogSoftmax(1))(t))
        T = sg.Tensor(lay(rows.copy()), requires_grad=True); y = mk(T)
        report("forward", unlay(y.data), s if op == "softmax" else ls, tol)
        for j in range(L):
            T = sg.Tensor(lay(rows.copy()), requires_grad=True); y = mk(T)
            g = np.zeros(rows.shape, dtype=dt); g[:, j] = 1
            y.backward(sg.Tensor(lay(g)))
            if op == "softmax": ref = s * (g - (g * s).sum(axis=1, keepdims=True))
            else: ref = g - s * g.sum(axis=1, keepdims=True)
            report(f"backward[g=e{j}]", unlay(T.grad.data), ref, tol)
    else:
        for lab in range(L):
            labels = np.full(len(rows), lab, dtype=np.int64)
            T = sg.Tensor(rows.copy(), requires_grad=True)
            if form == "fn": y = F.cross_entropy(T, sg.Tensor(labels))
            else: y = sg.nn.CrossEntropyLoss(reduction="none")(T, sg.Tensor(labels))
            yv = np.asarray(y.data, dtype=np.float64).reshape(len(rows))
            report(f"forward[label={lab}]", yv, -ls[:, lab], tol[:, 0])
            y.backward(sg.Tensor(np.ones(y.shape, dtype=dt)))
            oh = np.zeros(rows.shape); oh[:, lab] = 1
            report(f"backward[label={lab}]", T.grad.data, s - oh, tol)
    return int(rows.shape[0])

def validate_refs_mpmath():
    """stable float64 closed forms vs 50-digit mpmath on the whole pair grid and a ladder of unary points"""
    import mpmath as mp
    mp.mp.dps = 50
    pts = [0.0, 1e-3, -1e-3, 0.5, -0.5, 9.0, -17.3, 36.7, -88.72, 88.73, 103.9, -104.0, 709.0, -745.2, 1e3, -5e3, 1e4, -1e4]
    for x in pts:
        xv = np.array([x])
        e = {"sigmoid": (1 / (1 + mp.e ** (-mp.mpf(x))), None), "tanh": (mp.tanh(x), None)}
        for op, (val, _) in e.items():
            rv, rd = ref_unary(op, xv)
            if abs(mp.mpf(float(rv[0])) - val) > mp.mpf(1e-14) * max(1, abs(val)):
                raise harness.HarnessError(f"float64 reference for {op} disagrees with mpmath at {x}")
        for t in (0.0, 1.0, 0.3):
            rv, rd = ref_unary("bce_logits", xv, t)
            exact = mp.log(1 + mp.e ** mp.mpf(x)) - mp.mpf(x) * mp.mpf(t)
            if abs(mp.mpf(float(rv[0])) - exact) > mp.mpf(1e-12) * max(1, abs(exact)):
                raise harness.HarnessError(f"float64 reference for bce_logits disagrees with mpmath at {x}, t={t}")
    rows = np.array(list(itertools.product(GRID, repeat=2)))
    s, ls = ref_rows(rows)
    for i in range(0, len(rows), 7):
        a, b = (mp.mpf(float(r)) for r in rows[i])
        lse = mp.log(mp.e ** a + mp.e ** b) if max(a, b) < 5000 else max(a, b) + mp.log(1 + mp.e ** (-abs(a - b)))
        if abs(mp.mpf(float(ls[i, 0])) - (a - lse)) > mp.mpf(1e-11) * max(1, abs(a - lse)):
            raise harness.HarnessError(f"float64 log-softmax reference disagrees with mpmath on {rows[i]}")
    return len(pts) * 5 + len(rows) // 7

def replay(case):
    with harness.quiet():
        return judge(case)["violations"]

def run(tier, seed):
    nval = validate_refs_mpmath()
    cases = unary_cases(tier) + row_cases(tier)
    r = engine.run_cases(cases, judge)
    # group: one violation per kind and dtype (chunks of the same op collapse)
    best = {}
    for vv in r["violations"]:
        key = (vv["kind"], vv["case"].get("dtype"))
        if key not in best: best[key] = vv
    nx = 0
    for c in cases:
        nx += len(xs_for(c)) if c["kind"] == "unary" and c["mode"] == "quantised" else (2 * c["n"] if c["kind"] == "unary" else len(GRID) ** c["L"])
    cov = {"evaluations": r["evaluations"], "distinct_nontrivial": r["distinct_nontrivial"], "inputs_checked": int(nx),
           "rule": ("element-wise ops x targets: " + ("every finite float32 with |x| <= 1e4 (all %d bit patterns per sign, chunks of 2^20) " % (MAXBITS + 1)
                    if tier == "thorough" else "every float32 with |x| <= 1e4 whose low 12 mantissa bits are zero plus +-64 ulps around 12 thresholds, ")
                    + "values and gradients, float32 and float64; row ops: every row of length 2 and 3 over a 49-value logit grid "
                      "(0, +-1e-3 ... +-1e4) x every label x every basis upstream gradient x both dtypes x functional and module forms; "
                      "criterion: finite and |err| <= 16*eps32*max(1, max|x|); a case = one op/dtype/chunk; all are non-trivial"),
           "samples": r["samples"], "exhaustive": True, "outcomes": r["outcomes"], "reference_points_validated_with_mpmath": nval}
    return {"level": "exploration", "violations": list(best.values()), "coverage": cov,
            "assumptions": ["stable float64 closed forms (log-sum-exp, log1p, expm1) are the exact result; validated against mpmath (50 digits)",
                            "'single-precision accuracy relative to the magnitude of the inputs' is read as |err| <= 16 eps32 max(1, max|x|)"]}
