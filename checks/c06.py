"""C06 - forward results of nn ops / layers / losses match their documented definitions.

Bounded-exhaustive enumeration of the nn lattice (functional and module forms, int/tuple spellings,
accept and reject side) against torch.nn.functional and definitional loop nests (pooling with
dilation / wide padding, unfold with a pad value) that are cross-validated against torch."""
import numpy as np
from mc import harness, engine, catalog_nn as cat

RT, AT = 1e-9, 1e-10

def _outcome(fn):
    try:
        return ("ok", fn())
    except harness.HarnessError:
        raise
    except Exception as e:
        return ("raise", f"{type(e).__name__}: {str(e)[:80]}")

def judge(case):
    op = case["op"]
    name = op + ("" if case.get("form", "fn") == "fn" else ":" + case["form"])
    arrays = cat.arrays_for(case)
    offset = "offset" in (case.get("pats") or [])
    rt, at = RT, AT
    if offset:
        # large-mean data: the library runs in float32, the reference in float64 on the same float32-rounded values;
        # a two-pass variance is accurate to ~1e-4 here, a one-pass E[x^2]-E[x]^2 is off by percents
        arrays = [a.astype(np.float32) if a.dtype.kind == "f" else a for a in arrays]
        rt, at = 2e-3, 2e-3
    def lib():
        out, ts = cat.run_lib(case, arrays)
        res = {"out": np.asarray(out.data)}
        if op == "batch_norm" and case["args"]["stats"]:
            res["running_mean"], res["running_var"] = np.asarray(ts[-2].data), np.asarray(ts[-1].data)
        if op == "dropout":
            res["draws"] = case.get("_draws")
        return res
    L = _outcome(lib)
    R = _outcome(lambda: cat.run_ref(case, [a.astype(np.float64) if a.dtype.kind == "f" else a.copy() for a in arrays]))
    if R[0] == "ok" and not isinstance(R[1], dict):
        R = ("ok", {"out": R[1]})
    if op == "dropout" and L[0] == "ok" and R[0] == "ok":
        # either draw-to-decision rule (keep where u > p, or where u < 1-p) realises the documented distribution
        RB = _outcome(lambda: cat.run_ref(dict(case, args=dict(case["args"], conv="B")), [a.astype(np.float64) for a in arrays]))
        if RB[0] == "ok" and np.shape(RB[1]) == np.shape(L[1]["out"]) and np.allclose(np.asarray(L[1]["out"], dtype=np.float64), RB[1], rtol=rt, atol=at):
            R = ("ok", {"out": RB[1]})
    viol = []
    def v(sym, detail): viol.append({"kind": f"{name}:{sym}", "detail": detail})
    if L[0] == "raise" and R[0] == "ok":
        v("spurious-reject", f"library raised {L[1]}; reference returns shape {R[1]['out'].shape}")
    elif L[0] == "ok" and R[0] == "raise":
        v("accepted-but-reference-rejects", f"library returned shape {L[1]['out'].shape}; reference: {R[1]}")
    elif L[0] == "ok":
        for key, b in R[1].items():
            a = L[1][key]
            if tuple(np.shape(a)) != tuple(np.shape(b)):
                v("shape" if key == "out" else key + "-shape", f"library {key} shape {np.shape(a)}, reference {np.shape(b)}")
            elif not np.allclose(np.asarray(a, dtype=np.float64), b, rtol=rt, atol=at, equal_nan=True):
                v("value" if key == "out" else key, f"{key}: max abs diff {np.nanmax(np.abs(np.asarray(a, dtype=np.float64) - b)):.3g}")
        if op == "dropout":
            want = int(np.prod(case["shapes"][0])) if case["args"].get("training", True) else 0
            if L[1].get("draws") != want:
                v("draws", f"consumed {L[1].get('draws')} random draws, expected {want}")
    if L[0] == "ok" and R[0] == "ok" and not viol and not offset and op not in ("dropout",) and any(a.ndim >= 2 and a.size > 1 and a.dtype.kind == "f" for a in arrays):
        from mc import gradcheck
        for lname, conv in gradcheck.LAYOUTS:
            alt = [conv(np.array(a, copy=True)) if a.dtype.kind == "f" else np.array(a, copy=True) for a in arrays]
            cat.COPY = False
            try:
                r2 = _outcome(lambda: np.asarray(cat.run_lib(case, alt)[0].data))
            finally:
                cat.COPY = True
            b = R[1]["out"]
            if r2[0] != "ok":
                v("layout-dependent", f"operands in {lname} layout: library raised {r2[1]}")
            elif tuple(r2[1].shape) != tuple(np.shape(b)) or not np.allclose(np.asarray(r2[1], dtype=np.float64), b, rtol=RT, atol=AT, equal_nan=True):
                v("layout-dependent", f"operands in {lname} layout: result differs from the reference")
    return {"nontrivial": L[0] == "ok" and L[1]["out"].size >= 1, "outcome": L[0] + "/" + R[0], "violations": viol}

def replay(case):
    with harness.quiet():
        return judge(case)["violations"]

def run(tier, seed):
    cases = cat.cases(tier, "forward")
    if tier == "thorough":       # value-scale variants (tiny / large / large-mean operands) of the quick lattice
        for c in cat.cases("quick", "forward"):
            pats = c.get("pats") or ["generic"]
            if "generic" in pats and "offset" not in pats and c["op"] not in ("dropout",):
                for m in (("tiny", "large", "zeros", "ones") if c["op"] == "batch_norm" else ("tiny", "large", "offset", "zeros", "ones")):
                    cases.append(dict(c, vmod=m))
    r = engine.run_cases(cases, judge)
    cov = {"evaluations": r["evaluations"], "distinct_nontrivial": r["distinct_nontrivial"],
           "rule": "every case of the nn lattice: activations x shapes x patterns; softmax/log_softmax for every rank 1-4 shape "
                   "x every dim; losses (functional + modules x reductions, every label vector for N<=3, C<=4); linear; conv1d "
                   "over the full 1-d geometry grid (L x k x s x p x d, incl. empty-output must-raise cases); conv2d / unfold / "
                   "fold / pooling over the 2-d grid (%s), int/tuple/list spellings, functional and layer forms; batch-norm in "
                   "all training/affine/stats modes at non-trivial running statistics (buffers compared too); dropout for every "
                   "mask pattern under the scripted random source; non-trivial = accepted with a non-empty result"
                   % ("axes tied or one axis fixed" if tier == "quick" else "full product of both axes"),
           "samples": r["samples"], "exhaustive": True, "outcomes": r["outcomes"]}
    return {"level": "exploration", "violations": r["violations"], "coverage": cov,
            "assumptions": ["torch.nn.functional (float64) is the reference; definitional loop nests where torch has no counterpart, "
                            "cross-validated against torch on every case torch accepts (disagreement = harness error)",
                            "functional batch_norm in eval mode without running statistics uses batch statistics (layer docstring)",
                            "padding='same'/'valid' strings are not documented arguments and are not enumerated"]}
