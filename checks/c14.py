"""C14 - fused operations equal the compositions their documentation equates them with.

Differential oracle (no external reference): for each of the 16 identities, over the lattice of its
operands, both sides are built from library ops on fresh tensors; values and - for every basis
upstream gradient - the gradient of every operand must coincide (float64 tolerance)."""
import itertools, collections
import numpy as np
from mc import harness, engine, lattice, values, catalog_nn as cn

RT, AT = 1e-9, 1e-10

def _geoms(tier):
    g1 = [(L, k, s, p, d) for L, k, s, p, d in itertools.product((2, 3, 4), (1, 2, 3), (1, 2), (0, 1), (1, 2)) if lattice.conv_out(L, k, s, p, d) >= 1]
    if tier == "quick":
        fixed = [(3, 2, 1, 0, 1), (4, 3, 2, 1, 1)]
        return [(g, g) for g in g1] + [(g, f) for g in g1 for f in fixed] + [(f, g) for g in g1 for f in fixed]
    return [(a, b) for a in g1 for b in g1]

def all_cases(tier):
    out = []
    def add(ident, shapes, args=None, pats=None):
        c = {"ident": ident, "op": ident, "shapes": [list(s) for s in shapes], "args": args or {}}
        if pats: c["pats"] = pats
        out.append(c)
    S3 = lattice.shapes(3)
    for N in (1, 2, 3):
        for C in (1, 2, 3, 4):
            for code in range(C ** N):
                add("ce=nll(log_softmax)", [(N, C), (N,)], pats=["logits", f"labels:{C}:{code}"])
                if N >= 2 and code % 2 == 0: add("ce=nll(log_softmax)", [(N, C), (N,)], pats=["scales:1", f"labels:{C}:{code}"])
    for s in S3:
        for tg in ("target01", "target:0.3"):
            add("bce_logits=bce(sigmoid)", [s, s], pats=["logits", tg])
        add("mean=sum/count", [s], {"dim": None})
        for d in lattice.dims(len(s)) + lattice.signed_dim_tuples(len(s)):
            for kd in (False, True):
                add("mean=sum/count", [s], {"dim": d, "keepdims": kd})
        for a in lattice.dims(len(s)):
            for b in lattice.dims(len(s)):
                add("flatten=reshape", [s], {"start": a, "end": b})
                if abs((a % len(s)) - (b % len(s))) == 1:
                    add("movedim_adjacent=transpose", [s], {"src": a, "dst": b})
        for d in range(-len(s) - 1, len(s) + 1):
            for k in (1, 2, 3):
                add("stack=concat(unsqueeze)", [s] * k, {"dim": d})
                for i in range(k):
                    add("unbind(stack)=identity", [s] * k, {"dim": d, "i": i})
        if len(s) >= 1:
            for d in lattice.dims(len(s)):
                add("log_softmax=log(softmax)", [s], {"dim": d}, pats=["generic"])    # spread <= 5: the log() guard constant 1e-12 stays below tolerance
                if len(s) >= 2: add("log_softmax=log(softmax)", [s], {"dim": d}, pats=[f"scales:{d}"])   # slices on very different scales, same spread
    B = lattice.shapes(2) + [(2, 1, 3), (1, 3, 2), (3, 2, 1)]
    for s1 in B:
        for s2 in B:
            if lattice.broadcast_shape(s1, s2) is not None:
                add("a-b=a+(-b)", [s1, s2]); add("a/b=a*b**-1", [s1, s2])
        for c in (2.0, 0.5, -3.0, 7, 1):
            add("c/b=c*b**-1", [s1], {"c": c}); add("a/c=a*c**-1", [s1], {"c": c}); add("c-b=c+(-b)", [s1], {"c": c})
    for N, i, o in itertools.product((1, 2, 3), repeat=3):
        for bias in (False, True):
            add("linear=x@W.T+b", [(N, i), (o, i)] + ([(o,)] if bias else []))
            if o == 1: add("Neuron=Linear(out=1)", [(N, i), (1, i)] + ([(1,)] if bias else []))
    for m, k, n in itertools.product((1, 2, 3), repeat=3):
        for s1 in [(), (1,), (n,), (1, n), (m, 1), (m, n)]:
            add("addmm=a+b@c", [s1, (m, k), (k, n)])
    n = 0
    for (ga, gb) in _geoms(tier):
        H, W = ga[0], gb[0]; k = (ga[1], gb[1]); s = (ga[2], gb[2]); p = (ga[3], gb[3]); d = (ga[4], gb[4])
        n += 1
        Nb, Ci, Co = ((1, 1, 2), (2, 2, 1))[n % 2]
        bias = n % 3 != 0
        A = {"k": list(k), "s": list(s), "p": list(p), "d": list(d)}
        add("conv2d=unfold@weight", [(Nb, Ci, H, W), (Co, Ci) + k] + ([(Co,)] if bias else []), A)
        if all(pi <= (di * (ki - 1) + 1) / 2 for pi, di, ki in zip(p, d, k)):
            add("max_pool2d=max(windows)", [(Nb, Ci, H, W)], A)
            add("avg_pool2d=mean(windows)", [(Nb, Ci, H, W)], A)
    # one spatial axis: conv1d over (N, Ci, L) is the 2-d construction on (N, Ci, 1, L) with a (1, k) kernel
    from mc import catalog_nn as _cn
    n = 0
    for (L, k, s, p, d, ok) in _cn.geoms1d(tier):
        if not ok: continue
        n += 1
        Nb, Ci, Co = ((2, 1, 2), (3, 2, 1), (1, 2, 2))[n % 3]
        add("conv1d=unfold@weight", [(Nb, Ci, L), (Co, Ci, k)] + ([(Co,)] if n % 2 else []), {"k": k, "s": s, "p": p, "d": d})
    for names in itertools.chain.from_iterable(itertools.product(("linear", "tanh", "double", "relu"), repeat=r) for r in (1, 2, 3)):
        add("Sequential=composition", [(2, 2)], {"layers": list(names)})
        if len(names) >= 2: add("Sequential=composition", [(2, 2)], {"layers": list(names), "share_first_last": True})
    return out

def sides(case, ts, sg):
    """-> (lhs Tensor, rhs Tensor) built from the operand tensors ts"""
    F = sg.nn.functional; nn = sg.nn
    I, A = case["ident"], case["args"]
    td = lambda d: tuple(d) if isinstance(d, list) else d
    if I == "ce=nll(log_softmax)": return F.cross_entropy(ts[0], ts[1]), F.nll_loss(F.log_softmax(ts[0], 1), ts[1])
    if I == "bce_logits=bce(sigmoid)": return F.binary_cross_entropy_with_logits(ts[0], ts[1]), F.binary_cross_entropy(F.sigmoid(ts[0]), ts[1])
    if I == "log_softmax=log(softmax)": return F.log_softmax(ts[0], A["dim"]), F.softmax(ts[0], A["dim"]).log()
    if I == "linear=x@W.T+b":
        r = ts[0] @ ts[1].transpose(0, 1)
        return F.linear(ts[0], ts[1], ts[2] if len(ts) > 2 else None), (r + ts[2] if len(ts) > 2 else r)
    if I == "Neuron=Linear(out=1)":
        Ne = nn.Neuron(ts[1].shape[1], bias=len(ts) > 2); Li = nn.Linear(ts[1].shape[1], 1, bias=len(ts) > 2)
        Ne.weight = Li.weight = ts[1]
        if len(ts) > 2: Ne.bias = Li.bias = ts[2]
        return Ne(ts[0]), Li(ts[0])
    if I == "addmm=a+b@c": return sg.addmm(ts[0], ts[1], ts[2]), ts[0] + ts[1] @ ts[2]
    if I == "a-b=a+(-b)": return ts[0] - ts[1], ts[0] + (-ts[1])
    if I == "a/b=a*b**-1": return ts[0] / ts[1], ts[0] * ts[1] ** -1
    if I == "c/b=c*b**-1": return A["c"] / ts[0], A["c"] * ts[0] ** -1            # Python / NumPy scalar numerator (reflected operator)
    if I == "a/c=a*c**-1": return ts[0] / A["c"], ts[0] * (A["c"] ** -1)
    if I == "c-b=c+(-b)": return A["c"] - ts[0], A["c"] + (-ts[0])
    if I == "mean=sum/count":
        d = td(A["dim"]); kd = A.get("keepdims", False)
        if d is None: cnt = ts[0].size
        else:
            dd = (d,) if isinstance(d, int) else d
            cnt = int(np.prod([ts[0].shape[x] for x in dd], dtype=int))
        return ts[0].mean(dim=d, keepdims=kd), ts[0].sum(dim=d, keepdims=kd) / float(cnt)
    if I == "stack=concat(unsqueeze)":
        d = A["dim"]; dpos = d if d >= 0 else d + ts[0].ndim + 1
        return sg.stack(list(ts), d), sg.concat([t.unsqueeze(dpos) for t in ts], dpos)
    if I == "unbind(stack)=identity":
        return sg.unbind(sg.stack(list(ts), A["dim"]), A["dim"])[A["i"]], ts[A["i"]].clone()
    if I == "flatten=reshape":
        nd = ts[0].ndim; a, b = A["start"] % nd, A["end"] % nd
        if a > b: raise ValueError("outside the common domain")
        shp = ts[0].shape[:a] + (-1,) + ts[0].shape[b + 1:]
        return ts[0].flatten(A["start"], A["end"]), ts[0].reshape(shp)
    if I == "movedim_adjacent=transpose": return ts[0].movedim(A["src"], A["dst"]), ts[0].transpose(A["src"], A["dst"])
    if I == "conv2d=unfold@weight":
        k, s, p, d = (tuple(A[x]) for x in "kspd")
        x, w = ts[0], ts[1]
        lhs = F.conv2d(x, w, ts[2] if len(ts) > 2 else None, stride=s, padding=p, dilation=d)
        cols = F.unfold(x, k, dilation=d, stride=s, padding=p)                  # (N, Ci*kh*kw, L)
        r = w.reshape((1, w.shape[0], -1)) @ cols                               # (N, Co, L)
        if len(ts) > 2: r = r + ts[2].reshape((1, -1, 1))
        return lhs, r.reshape(lhs.shape)
    if I == "conv1d=unfold@weight":
        x, w = ts[0], ts[1]
        lhs = F.conv1d(x, w, ts[2] if len(ts) > 2 else None, stride=A["s"], padding=A["p"], dilation=A["d"])
        cols = F.unfold(x.unsqueeze(2), (1, A["k"]), dilation=(1, A["d"]), stride=(1, A["s"]), padding=(0, A["p"]))    # (N, Ci*k, Lout)
        r = w.reshape((1, w.shape[0], -1)) @ cols
        if len(ts) > 2: r = r + ts[2].reshape((1, -1, 1))
        return lhs, r.reshape(lhs.shape)
    if I in ("max_pool2d=max(windows)", "avg_pool2d=mean(windows)"):
        k, s, p, d = (tuple(A[x]) for x in "kspd")
        x = ts[0]; mx = I.startswith("max")
        lhs = (F.max_pool2d if mx else F.avg_pool2d)(x, k, stride=s, padding=p, dilation=d)
        cols = F.unfold(x, k, dilation=d, stride=s, padding=p, pad_value=(-np.inf if mx else 0))
        cols = cols.reshape((x.shape[0], x.shape[1], k[0] * k[1], -1))
        r = cols.max(dim=2) if mx else cols.mean(dim=2)
        return lhs, r.reshape(lhs.shape)
    if I == "Sequential=composition":
        mods = []
        for j, nme in enumerate(A["layers"]):
            if nme == "linear":
                L = nn.Linear(2, 2); L.weight.data = np.array([[1.0, -2.0], [0.5, 3.0]]) * (j + 1); L.bias.data = np.array([-0.5, 0.25]) * (j + 1)
                mods.append(L)
            elif nme == "tanh": mods.append(nn.Tanh())
            elif nme == "relu": mods.append(nn.ReLU())
            else:
                class Dbl(nn.Module):
                    def forward(self, x): return x * 2.0
                mods.append(Dbl())
        if A.get("share_first_last"): mods[-1] = mods[0]      # one module instance used in two positions (shared activation / tied weights)
        y = ts[0]
        for m in mods: y = m(y)
        return nn.Sequential(*mods)(ts[0]), y
    raise harness.HarnessError(I)

def judge(case):
    sg = harness.load()
    arrays = cn.arrays_for(case)
    diff = [i for i, a in enumerate(arrays) if a.dtype.kind == "f" and not (case["ident"] in ("ce=nll(log_softmax)", "bce_logits=bce(sigmoid)") and i == 1)]
    name = case["ident"]
    viol = []
    def v(sym, detail):
        k = f"{name}:{sym}"
        if all(x["kind"] != k for x in viol): viol.append({"kind": k, "detail": detail})
    def build(side, rg=True):
        ts = [sg.Tensor(a.copy(), requires_grad=(rg and i in diff)) for i, a in enumerate(arrays)]
        return sides(case, ts, sg)[side], ts
    try:
        L, _ = build(0, False); R, _ = build(1, False)
    except harness.HarnessError:
        raise
    except Exception as e:
        return {"nontrivial": False, "outcome": "outside-common-domain", "violations": []}
    a, b = np.asarray(L.data, dtype=np.float64), np.asarray(R.data, dtype=np.float64)
    if a.shape != b.shape:
        v("shape", f"fused {a.shape} vs composition {b.shape}")
        return {"nontrivial": True, "outcome": "ok", "violations": viol}
    scale = max(1.0, float(np.max(np.abs(b))) if b.size else 1.0)
    if not np.allclose(a, b, rtol=RT, atol=AT * scale, equal_nan=True):
        v("value", f"max abs diff {np.nanmax(np.abs(a - b)):.3g}")
    m = a.size
    gs = [np.eye(1, m, i).reshape(a.shape) for i in range(m)] if m <= 36 else [np.eye(1, m, i).reshape(a.shape) for i in range(0, m, max(1, m // 24))]
    gs.append(values.dense_g(a.shape)); gs.append(np.ones(a.shape))
    for gi, g in enumerate(gs):
        grads = []
        for side in (0, 1):
            try:
                out, ts = build(side)
                out.backward(sg.Tensor(g.copy()))
                if gi == len(gs) - 1:       # last upstream gradient: a second backward over the same graph (both sides accumulate)
                    out.backward(sg.Tensor(g.copy() * 0.5))
                grads.append([None if ts[i].grad is None else np.asarray(ts[i].grad.data, dtype=np.float64) for i in diff])
            except Exception as e:
                v("backward-raised", f"{'fused' if side == 0 else 'composition'} side: {type(e).__name__}: {str(e)[:80]}"); grads.append(None)
        if None in grads: break
        for i, ga, gb in zip(diff, grads[0], grads[1]):
            if ga is None or gb is None:
                other = gb if ga is None else ga        # an operand outside one side's graph: None there, zeros on the other side
                if other is not None and np.any(other != 0): v("grad-presence", f"operand {i}: non-zero gradient on one side, none on the other")
                continue
            sc = max(1.0, float(np.max(np.abs(gb))))
            if ga.shape != gb.shape or not np.allclose(ga, gb, rtol=1e-8, atol=1e-9 * sc):
                v("gradient", f"operand {i}: fused vs composition gradient differ by {np.max(np.abs(ga - gb)):.3g} for one upstream gradient")
    return {"nontrivial": True, "outcome": "ok", "violations": viol}

def replay(case):
    with harness.quiet():
        return judge(case)["violations"]

def run(tier, seed):
    cases = all_cases(tier)
    r = engine.run_cases(cases, judge)
    per = collections.Counter(c["ident"] for c in cases)
    cov = {"evaluations": r["evaluations"], "distinct_nontrivial": r["distinct_nontrivial"],
           "rule": "16 identities x operand lattices (label vectors, shapes of rank <= 3, every dim / signed dim tuple, broadcast pairs, "
                   "(N,in,out) sizes, 2-d geometry grid %s): values and, for every basis upstream gradient (plus dense and all-ones), "
                   "every operand gradient of both sides; non-trivial = both sides accept the operands"
                   % ("tied or one axis fixed" if tier == "quick" else "full product"),
           "samples": r["samples"], "exhaustive": True, "outcomes": r["outcomes"], "cases_per_identity": dict(per)}
    return {"level": "exploration", "violations": r["violations"], "coverage": cov,
            "assumptions": ["moderate logits (|x| <= 5) for the sigmoid/BCE pair; tolerances 1e-9 relative (float64)"]}
