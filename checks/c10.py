"""C10 - results and gradients keep the operand's floating dtype and exact shape.

Every case of the tensor and nn catalogues (quick lattices of C01/C02) x operand dtype {float32,
float64} x upstream-gradient dtype {float32, float64}: result dtype, .grad dtype/shape of every
tensor that holds a gradient (operands and root), float32 result vs float64 result."""
import numpy as np
from mc import harness, engine, catalog_tensor as ct, catalog_nn as cn, values

def _family(case):
    return cn if "form" in case else ct

def judge(case):
    sg = harness.load()
    fam = _family(case)
    name = case["op"] + ("" if case.get("form", "fn") == "fn" else ":" + case["form"])
    viol = []
    def v(sym, detail):
        k = f"{name}:{sym}"
        if all(x["kind"] != k for x in viol): viol.append({"kind": k, "detail": detail})
    results = {}
    accepted = False
    order = (np.float32, np.float64) if int(harness.digest(case), 16) % 2 else (np.float64, np.float32)
    for dt in order:       # the order alternates from case to case: state left behind by one dtype must not leak into the other
        arrays = fam.arrays_for(case, dtype=dt)
        diff = cn.diff_idx(case, arrays) if fam is cn else list(range(len(arrays)))
        rg = [i in diff for i in range(len(arrays))]
        try:
            out, ts = fam.run_lib(case, arrays, rg)
        except harness.HarnessError:
            raise
        except Exception:
            continue            # rejected configurations are C05/C06's business
        accepted = True
        od = np.asarray(out.data)
        results[dt] = od
        if od.dtype != np.dtype(dt):
            v("result-dtype", f"{np.dtype(dt).name} operands -> {od.dtype} result of shape {od.shape}")
        for gdt in (np.float32, np.float64):
            try:
                out, ts = fam.run_lib(case, arrays, rg)
                if not out.requires_grad: break
                g = np.asarray(values.dense_g(out.shape), dtype=gdt)
                out.backward(sg.Tensor(g))
            except harness.HarnessError:
                raise
            except Exception as e:
                v("backward-raised", f"operands {np.dtype(dt).name}, upstream gradient {np.dtype(gdt).name}: {type(e).__name__}: {str(e)[:80]}")
                continue
            for i in diff:
                gr = ts[i].grad
                if gr is None:
                    v("grad-missing", f"operand {i} has no gradient"); continue
                if gr.dtype != ts[i].dtype:
                    v("grad-dtype", f"operand {i} is {ts[i].dtype}, its .grad is {gr.dtype} (upstream gradient {np.dtype(gdt).name})")
                if tuple(gr.shape) != tuple(ts[i].shape):
                    v("grad-shape", f"operand {i} has shape {ts[i].shape}, its .grad has shape {gr.shape}")
            rgr = out.grad
            if rgr is not None:
                if rgr.dtype != out.dtype:
                    v("root-grad-dtype", f"root is {out.dtype}, its .grad is {rgr.dtype} (upstream gradient {np.dtype(gdt).name})")
                if tuple(rgr.shape) != tuple(out.shape):
                    v("root-grad-shape", f"root shape {out.shape}, .grad shape {rgr.shape}")
    # operands of DIFFERENT floating dtypes (a float64 input through float32 parameters, ...): whatever the result's dtype, every
    # tensor's .grad keeps that tensor's own dtype and shape ("whatever the shapes and dtypes of the other operands")
    if accepted and fam is ct or (accepted and case.get("form", "fn") == "fn"):
        base = fam.arrays_for(case, dtype=np.float32)
        fl = [i for i, a in enumerate(base) if a.dtype.kind == "f"]
        if len(fl) >= 2:
            for odd in (fl[0], fl[-1]):
                arrays = [np.asarray(a, dtype=np.float64) if i == odd else a for i, a in enumerate(base)]
                diff = cn.diff_idx(case, arrays) if fam is cn else list(range(len(arrays)))
                rg = [i in diff for i in range(len(arrays))]
                try:
                    out, ts = fam.run_lib(case, arrays, rg)
                    if not out.requires_grad or np.asarray(out.data).dtype.kind != "f": continue
                    out.backward(sg.Tensor(np.asarray(values.dense_g(out.shape), dtype=out.dtype)))
                except harness.HarnessError:
                    raise
                except Exception:
                    continue        # mixed precision may be refused (torch refuses it for matmul-like ops)
                for i in diff:
                    gr = ts[i].grad
                    if gr is None: continue
                    if gr.dtype != ts[i].dtype:
                        v("grad-dtype", f"mixed precision (operand {odd} float64, the others float32): operand {i} is {ts[i].dtype}, its .grad is {gr.dtype}")
                    if tuple(gr.shape) != tuple(ts[i].shape):
                        v("grad-shape", f"mixed precision: operand {i} has shape {ts[i].shape}, its .grad has shape {gr.shape}")
    if accepted and np.float32 in results:
        from mc import gradcheck
        arrays32 = fam.arrays_for(case, dtype=np.float32)
        if any(a.ndim >= 2 and a.size > 1 and a.dtype.kind == "f" for a in arrays32):
            for lname, conv in gradcheck.LAYOUTS:
                alt = [conv(np.array(a, copy=True)) if a.dtype.kind == "f" else np.array(a, copy=True) for a in arrays32]
                try:
                    if fam is ct: o2, _ = fam.run_lib(case, alt, None, copy=False)
                    else:
                        cn.COPY = False
                        try: o2, _ = fam.run_lib(case, alt, None)
                        finally: cn.COPY = True
                except harness.HarnessError:
                    raise
                except Exception:
                    continue
                if np.asarray(o2.data).dtype != np.float32:
                    v("result-dtype", f"float32 operands in {lname} layout -> {np.asarray(o2.data).dtype} result")
    if np.float32 in results and np.float64 in results:
        a, b = results[np.float32].astype(np.float64), results[np.float64].astype(np.float64)
        if a.shape != b.shape:
            v("result-shape-depends-on-dtype", f"{a.shape} vs {b.shape}")
        else:
            scale = max([1.0, float(np.max(np.abs(b))) if b.size and np.all(np.isfinite(b)) else 1.0] +
                        [float(np.max(np.abs(x))) for x in fam.arrays_for(case) if x.size and x.dtype.kind == "f"])
            fin = np.isfinite(b)
            if np.any(np.abs(a - b)[fin] > 2e-5 * scale):
                v("float32-vs-float64", f"max abs diff {np.max(np.abs(a - b)[fin]):.3g} at scale {scale:.3g}")
    return {"nontrivial": accepted, "outcome": "accepted" if accepted else "rejected", "violations": viol}

def seq_cases():
    out = []
    for dt in ("float32", "float64"):
        for form in ("1d2", "1d3", "2d"):
            for mom in (0.1, None):
                for affine in (True, False):
                    out.append({"op": "seq:bn_train_eval", "shapes": [], "args": {"dtype": dt, "form": form, "momentum": mom, "affine": affine}})
        for opt in ("SGD", "SGDm", "Adam", "AdamW"):
            out.append({"op": "seq:opt_step", "shapes": [], "args": {"dtype": dt, "opt": opt}})
        out.append({"op": "seq:dropout_train_eval", "shapes": [], "args": {"dtype": dt}})
        for shape in ((), (3,), (2, 3)):
            out.append({"op": "seq:leaf_root_backward", "shapes": [list(shape)], "args": {"dtype": dt}})
    return out

def judge_seq(case):
    """dtype preservation across short stateful sequences (a later call sees state written by an earlier one)"""
    sg = harness.load(); nn = sg.nn
    A = case["args"]; dt = np.dtype(A["dtype"]); name = case["op"]
    viol = []
    def v(sym, detail):
        k = f"{name}:{sym}"
        if all(x["kind"] != k for x in viol): viol.append({"kind": k, "detail": detail})
    def chk(what, t):
        if t is not None and t.dtype != dt: v("dtype", f"{what} is {t.dtype}, layer / operands are {dt}")
    try:
        if name == "seq:bn_train_eval":
            shape = {"1d2": (3, 2), "1d3": (3, 2, 2), "2d": (2, 2, 2, 2)}[A["form"]]
            L = (nn.BatchNorm2d if A["form"] == "2d" else nn.BatchNorm1d)(2, momentum=A["momentum"], affine=A["affine"], dtype=dt.type)
            x = values.generic(shape).astype(dt)
            for step, mode in enumerate(("train", "train", "eval", "train", "eval")):
                getattr(L, mode)()
                xt = sg.Tensor(x.copy() + step, requires_grad=True)
                y = L(xt); chk(f"output of forward #{step} ({mode})", y)
                chk("running_mean", L.running_mean); chk("running_var", L.running_var)
                y.backward(sg.Tensor(np.ones(y.shape, dtype=dt)))
                chk(f"input gradient of forward #{step} ({mode})", xt.grad)
                if A["affine"]: chk("gamma gradient", L.weight.grad); chk("beta gradient", L.bias.grad)
        elif name == "seq:opt_step":
            L = nn.Linear(3, 2)
            L.weight.data = L.weight.data.astype(dt); L.bias.data = L.bias.data.astype(dt)
            kw = {"SGD": dict(weight_decay=0.1), "SGDm": dict(momentum=0.9, nesterov=True), "Adam": dict(weight_decay=0.1), "AdamW": dict(weight_decay=0.1)}[A["opt"]]
            opt = getattr(sg.optim, "SGD" if A["opt"].startswith("SGD") else A["opt"])(L.parameters(), lr=0.1, **kw)
            x = values.generic((4, 3)).astype(dt)
            for step in range(3):
                y = L(sg.Tensor(x.copy())); chk(f"output after {step} steps", y)
                loss = (y * y).sum(); chk("loss", loss)
                opt.zero_grad(); loss.backward(); opt.step()
                for nme, p in (("weight", L.weight), ("bias", L.bias)):
                    chk(f"{nme} after step {step + 1}", p); chk(f"{nme}.grad", p.grad)
                    if tuple(p.grad.shape) != tuple(p.shape): v("grad-shape", f"{nme}.grad shape {p.grad.shape}")
        elif name == "seq:leaf_root_backward":
            shape = tuple(case["shapes"][0])
            for first in ("fresh", "after_graph_backward", "after_zero"):
                for gdt in (np.float32, np.float64):
                    x = sg.Tensor(values.generic(shape).astype(dt), requires_grad=True)
                    if first == "after_graph_backward": (x * 2.0).sum().backward()
                    if first == "after_zero": x.zero_()
                    for rep in range(2):
                        x.backward(sg.Tensor(np.ones(shape, dtype=gdt)))
                        chk(f"leaf root .grad ({first}, call {rep + 1}, upstream gradient {np.dtype(gdt).name})", x.grad)
                        if tuple(x.grad.shape) != shape: v("grad-shape", f"leaf root grad shape {x.grad.shape} != {shape}")
        else:
            L = nn.Dropout(0.5); x = values.generic((4, 3)).astype(dt)
            for mode in ("train", "eval", "train"):
                getattr(L, mode)()
                xt = sg.Tensor(x.copy(), requires_grad=True); y = L(xt); chk(f"Dropout output ({mode})", y)
                y.backward(sg.Tensor(np.ones(y.shape, dtype=dt))); chk(f"Dropout input gradient ({mode})", xt.grad)
    except harness.HarnessError:
        raise
    except Exception as e:
        v("raised", f"{type(e).__name__}: {str(e)[:100]}")
    return {"nontrivial": True, "outcome": "ok", "violations": viol}

def dispatch(case):
    return judge_seq(case) if case["op"].startswith("seq:") else judge(case)

def all_cases(tier):
    # loss targets held in an integer / bool dtype are left out: the statement fixes the result dtype for floating-point operands,
    # torch refuses such targets outright, and what a float32 prediction and an int64 target "should" promote to is not stated
    nn_cases = [c for c in cn.cases(tier, "grad") if not any(str(p).startswith("target01:") for p in (c.get("pats") or []))]
    return ct.cases(tier, "grad") + nn_cases + seq_cases()

def replay(case):
    with harness.quiet():
        return dispatch(case)["violations"]

def run(tier, seed):
    cases = all_cases(tier)
    r = engine.run_cases(cases, dispatch)
    cov = {"evaluations": r["evaluations"], "distinct_nontrivial": r["distinct_nontrivial"],
           "rule": "every case of the tensor-op and nn catalogues (the C01 and C02 lattices, incl. Python-scalar operands, every "
                   "broadcast pattern, 0-d results of full reductions / element indexing / reduced losses, layers and loss modules) "
                   "x operand dtype {float32,float64} x upstream-gradient dtype {float32,float64}: result dtype, .grad dtype and shape "
                   "of every operand and of the root, float32 result within 2e-5*scale of the float64 result; plus short stateful sequences "
                   "(BatchNorm train/eval forwards with buffers written by earlier calls, optimizer steps then forwards, Dropout mode "
                   "switches) in both dtypes; non-trivial = accepted",
           "samples": r["samples"], "exhaustive": True, "outcomes": r["outcomes"]}
    return {"level": "exploration", "violations": r["violations"], "coverage": cov,
            "assumptions": ["all operands of a case share one floating dtype (mixed-dtype operands are outside the statement)",
                            "integer label operands keep their integer dtype"]}
