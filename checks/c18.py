"""C18 - dataset split, batching and one-hot encoding lose or misalign no sample.

Exhaustive over dataset lengths x split fractions x shuffle (EVERY permutation for n <= 5 through the
scripted shuffle), loader lengths x batch sizes x transforms (iterated twice, nested), and every
label sequence of length <= 4 over two label alphabets; oracle = arithmetic model."""
import itertools, math
import numpy as np
from mc import harness, engine, randsrc

def all_cases(tier):
    out = []
    N = 12 if tier == "quick" else 16
    for n in range(0, N + 1):
        for ts in (0, 0.1, 0.2, 0.25, 0.5, 0.75, 1):
            for vs in (None, 0, 0.2, 0.5, 1):
                out.append({"kind": "split", "n": n, "test": ts, "val": vs, "shuffle": None})
                if n <= (4 if tier == "quick" else 5) and n >= 2 and ts in (0.25, 0.5) and vs in (None, 0.5):
                    for perm in itertools.permutations(range(n)):
                        out.append({"kind": "split", "n": n, "test": ts, "val": vs, "shuffle": list(perm)})
                elif n >= 2 and ts in (0.2, 0.5):
                    for seed in (1, 2, 3):
                        out.append({"kind": "split", "n": n, "test": ts, "val": vs, "shuffle": "seed%d" % seed})
    # more split fractions at sizes where fraction * n is an integer or close to one in binary floating point; only pairs whose
    # exact-rational floor and double-precision floor agree (the "floor rule" is then unambiguous) are enumerated
    from fractions import Fraction
    decs = ["0.05", "0.15", "0.3", "0.35", "0.4", "0.45", "0.55", "0.6", "0.65", "0.7", "0.8", "0.85", "0.9", "0.95"]
    for n in (7, 9, 10, 11, 20, 30, 40, 50, 100, 200):
        for d in decs:
            ts = float(d)
            if int(math.floor(ts * n)) != math.floor(Fraction(d) * n): continue
            for dv in (None, "0.3", "0.7"):
                rest = n - int(math.floor(ts * n))
                if dv is not None and int(math.floor(float(dv) * rest)) != math.floor(Fraction(dv) * rest): continue
                out.append({"kind": "split", "n": n, "test": ts, "val": None if dv is None else float(dv), "shuffle": None})
    for n in range(0, 11):
        for b in range(1, 7):
            for tr in ("none", "default", "identity", "scale", "scale_positional") + (("scale_function", "scale_lambda", "scale_callable_object") if n <= 6 and b <= 3 else ()):
                out.append({"kind": "loader", "n": n, "batch": b, "transform": tr})
            for yl in ("column", "onehot3", "list"):          # label containers other than a 1-D array
                out.append({"kind": "loader", "n": n, "batch": b, "transform": "default", "ylayout": yl})
    for n in (0, 1, 4, 7, 10):
        for ts, vs in ((0.25, None), (0.5, 0.5), (0.3, 0.2)):
            out.append({"kind": "split", "n": n, "test": ts, "val": vs, "shuffle": None, "ylayout": "rows"})
            if n >= 2: out.append({"kind": "split", "n": n, "test": ts, "val": vs, "shuffle": "seed2", "ylayout": "rows"})
    # sizes around the limits of narrow integer types (counts / indices kept in 8 or 16 bits)
    for n in (127, 128, 129, 255, 256, 257, 300):
        out.append({"kind": "split", "n": n, "test": 0.5, "val": 0.5, "shuffle": None})
        out.append({"kind": "split", "n": n, "test": 0.25, "val": None, "shuffle": "seed1"})
        out.append({"kind": "loader", "n": n, "batch": 1, "transform": "none"}); out.append({"kind": "loader", "n": n, "batch": 127, "transform": "identity"})
        out.append({"kind": "onehot", "labels": list(range(n - 1, -1, -1)) + [0, n - 1]})
    for n, b in ((4, 2), (5, 2), (6, 3), (3, 3), (2, 3)):
        for ret in ("list", "dict", "triple", "array"):
            out.append({"kind": "loader_transform_result", "n": n, "batch": b, "returns": ret})
    for alphabet in ([0, 1, 2, 5], ["a", "b"], [3, -1]):
        for L in range(1, 5):
            for seq in itertools.product(alphabet, repeat=L):
                out.append({"kind": "onehot", "labels": list(seq)})
                # the same labels in other containers: Python list, (n,1) column, list of 1-element arrays, float array
                for cont in ("list", "column", "list_of_arrays") + (("float",) if alphabet[0] != "a" else ()):
                    if L <= 3 or cont == "column":
                        out.append({"kind": "onehot", "labels": list(seq), "container": cont})
    return out

def judge(case):
    sg = harness.load()
    from synapgrad.nn.utils import data as D
    viol = []
    def v(sym, detail): viol.append({"kind": f"{case['kind']}:{sym}", "detail": detail})
    if case["kind"] == "split":
        n, ts, vs, sh = case["n"], case["test"], case["val"], case["shuffle"]
        X = np.array([[i, 10 * i] for i in range(n)], dtype=np.float32).reshape(n, 2)
        y = np.array([100 + i for i in range(n)], dtype=np.float32)
        if case.get("ylayout") == "rows":        # one label ROW per sample (one-hot / multi-target): rows stay paired with their sample
            y = np.stack([y, y + 0.25, y + 0.5], axis=1)
        try:
            if sh is None:
                tr, te, va = D.split_dataset(X, y, test_split=ts, val_split=vs, shuffle=False)
            elif isinstance(sh, list):
                with randsrc.controlled(perms=[sh]) as src:
                    tr, te, va = D.split_dataset(X, y, test_split=ts, val_split=vs, shuffle=True)
            else:
                sg.manual_seed(int(sh[4:]))
                tr, te, va = D.split_dataset(X, y, test_split=ts, val_split=vs, shuffle=True)
        except Exception as e:
            v("raised", f"{type(e).__name__}: {str(e)[:80]}")
            return {"nontrivial": n >= 2, "outcome": "raise", "violations": viol}
        n_test = int(math.floor(ts * n)); rest = n - n_test
        n_val = None if vs is None else int(math.floor(vs * rest))
        n_train = rest - (n_val or 0)
        sizes = (len(tr[0]), len(te[0]), None if va is None else len(va[0]))
        if sizes != (n_train, n_test, n_val):
            v("sizes", f"(train,test,val) sizes {sizes}, floor rule gives {(n_train, n_test, n_val)}")
        parts = [("train", tr), ("test", te)] + ([("val", va)] if va is not None else [])
        if (va is None) != (vs is None): v("validation-presence", f"validation set {'missing' if va is None else 'unexpected'}")
        seen = []
        for name, (Xs, ys) in parts:
            Xs = np.asarray(Xs); ys = np.asarray(ys)
            if len(Xs) != len(ys): v("pairing", f"{name}: {len(Xs)} features vs {len(ys)} labels"); continue
            for k in range(len(Xs)):
                if case.get("ylayout") == "rows":
                    if np.shape(ys[k]) != (3,) or abs(float(ys[k][1]) - float(ys[k][0]) - 0.25) > 1e-6:
                        v("pairing", f"{name}[{k}]: label row {ys[k]} is not a row of the label matrix"); break
                    ys_k = ys[k][0]
                else:
                    ys_k = ys[k]
                i = int(round(float(ys_k) - 100))
                if Xs.shape[1:] != (2,) or int(Xs[k][0]) != i or int(Xs[k][1]) != 10 * i:
                    v("pairing", f"{name}[{k}]: features {Xs[k]} paired with label {ys[k]}"); break
                seen.append(i)
        if sorted(seen) != list(range(n)):
            v("partition", f"samples seen {sorted(seen)} != each of 0..{n - 1} exactly once")
        elif sh is None or isinstance(sh, list):
            order = list(range(n)) if sh is None else list(sh)
            exp_te = order[:n_test]; rest_idx = order[n_test:]
            exp_va = rest_idx[: (n_val or 0)]; exp_tr = rest_idx[(n_val or 0):]
            got = {name: [int(round(float(np.ravel(t)[0]) - 100)) for t in np.asarray(p[1])] for name, p in parts}
            if sh is None:
                for name in got:
                    if got[name] != sorted(got[name]): v("order", f"shuffle off but {name} order is {got[name]}")
        if isinstance(sh, list) and not viol and src.n_perm != 1:
            v("shuffle-draws", f"{src.n_perm} shuffles drawn")
        return {"nontrivial": n >= 2, "outcome": "ok", "violations": viol}
    if case["kind"] == "loader":
        n, b, tr = case["n"], case["batch"], case["transform"]
        X = np.arange(n * 2, dtype=np.float32).reshape(n, 2); y = np.arange(n, dtype=np.float32) + 100
        yl = case.get("ylayout")
        if yl == "column": y = y.reshape(n, 1)
        elif yl == "onehot3": y = np.stack([y, y + 0.25, y + 0.5], axis=1)
        elif yl == "list": y = [float(t) for t in y]; X = [list(r) for r in X]
        calls = []
        class Ident(D.DataLoaderCallback):
            def __call__(self, dl, Xb, yb): calls.append(len(yb)); return Xb, yb
        class Scale(D.DataLoaderCallback):
            def __call__(self, dl, Xb, yb): calls.append(len(yb)); return Xb * 2, yb + 1
        try:
            if tr == "default": dl = D.DataLoader(X, y, b)
            elif tr == "none": dl = D.DataLoader(X, y, b, transform=None)
            elif tr == "identity": dl = D.DataLoader(X, y, b, transform=Ident())
            elif tr == "scale_positional": dl = D.DataLoader(X, y, b, Scale())      # transform passed as the 4th positional argument
            elif tr == "scale_function":          # any callable taking (loader, X_batch, y_batch) is a transform: plain function ...
                def fn(dl_, Xb, yb): calls.append(len(yb)); return Xb * 2, yb + 1
                dl = D.DataLoader(X, y, b, transform=fn)
            elif tr == "scale_lambda":            # ... lambda ...
                dl = D.DataLoader(X, y, b, transform=lambda dl_, Xb, yb: (calls.append(len(yb)), (Xb * 2, yb + 1))[1])
            elif tr == "scale_callable_object":   # ... or an object with __call__ that does not derive from DataLoaderCallback
                class Obj:
                    def __call__(self, dl_, Xb, yb): calls.append(len(yb)); return Xb * 2, yb + 1
                dl = D.DataLoader(X, y, b, transform=Obj())
            else: dl = D.DataLoader(X, y, b, transform=Scale())
            nb = n // b
            if len(dl) != nb: v("len", f"len(loader)={len(dl)}, floor({n}/{b})={nb}")
            for rep in range(2):
                calls.clear()
                batches = list(dl)
                if len(batches) != nb:
                    v("batch-count" if rep == 0 else "not-re-iterable", f"pass {rep}: {len(batches)} batches, expected {nb}"); break
                for k, (Xb, yb) in enumerate(batches):
                    eX, ey = np.asarray(X[k * b:(k + 1) * b]), np.asarray(y[k * b:(k + 1) * b])
                    if tr.startswith("scale"): eX, ey = eX * 2, ey + 1
                    if len(yb) != b or not (np.array_equal(np.asarray(Xb), eX) and np.array_equal(np.asarray(yb), ey)):
                        v("batch-content", f"pass {rep} batch {k}: labels {np.asarray(yb)}, expected {ey}"); break
                if tr in ("identity", "scale", "scale_positional", "scale_function", "scale_lambda", "scale_callable_object") and calls != [b] * nb:
                    v("transform-calls", f"transform called with batch sizes {calls}, expected once per batch")
            if nb >= 2:
                # restart after a partial pass
                it = iter(dl); next(it)
                again = list(dl)
                if len(again) != nb: v("not-re-iterable", f"after a partial pass a new iteration yields {len(again)} batches, expected {nb}")
        except Exception as e:
            v("raised", f"{type(e).__name__}: {str(e)[:80]}")
        return {"nontrivial": n >= b, "outcome": "ok", "violations": viol}
    if case["kind"] == "loader_transform_result":
        # whatever the transform returns for a batch IS the batch the loader yields (a pair as a list, a dict, a single object)
        n, b, ret = case["n"], case["batch"], case["returns"]
        X = np.arange(n * 2, dtype=np.float32).reshape(n, 2); y = np.arange(n, dtype=np.float32) + 100
        made = []
        class Tr(D.DataLoaderCallback):
            def __call__(self, dl, Xb, yb):
                r = {"list": lambda: [Xb * 2, yb + 1], "dict": lambda: {"x": Xb * 2, "y": yb + 1}, "triple": lambda: (Xb, Xb * 2, yb + 1),
                     "array": lambda: np.concatenate([np.asarray(Xb), np.asarray(yb).reshape(-1, 1)], axis=1)}[ret]()
                made.append(r); return r
        try:
            dl = D.DataLoader(X, y, b, transform=Tr())
            for rep in range(2):
                made.clear()
                got = list(dl)
                if len(got) != n // b or len(made) != n // b:
                    v("batch-count", f"transform returning a {ret}: {len(got)} batches, {len(made)} transform calls, expected {n // b}"); break
                for k, (g, m) in enumerate(zip(got, made)):
                    if g is not m:
                        v("transform-result-not-yielded", f"transform returning a {ret}: batch {k} yielded by the loader is {type(g).__name__} "
                          f"{str(g)[:80]}, not the object the transform returned"); break
        except Exception as e:
            v("raised", f"transform returning a {ret}: {type(e).__name__}: {str(e)[:80]}")
        return {"nontrivial": n >= b, "outcome": "ok", "violations": viol}
    if case["kind"] == "onehot":
        labels = case["labels"]
        try:
            cont = case.get("container", "array")
            arg = {"array": lambda: np.array(labels), "list": lambda: list(labels), "column": lambda: np.array(labels).reshape(-1, 1),
                   "list_of_arrays": lambda: [np.array([l]) for l in labels], "float": lambda: np.array(labels, dtype=np.float32)}[cont]()
            enc = np.asarray(D.one_hot_encode(arg))
        except Exception as e:
            v("raised", f"{type(e).__name__}: {str(e)[:80]}")
            return {"nontrivial": True, "outcome": "raise", "violations": viol}
        uniq = sorted(set(labels))
        exp = np.zeros((len(labels), len(uniq)))
        for r, l in enumerate(labels): exp[r, uniq.index(l)] = 1
        if enc.shape != exp.shape or not np.array_equal(enc, exp):
            v("encoding", f"labels {labels}: got {enc.tolist()}, expected {exp.tolist()}")
        return {"nontrivial": len(labels) >= 2, "outcome": "ok", "violations": viol}
    raise harness.HarnessError(case["kind"])

def replay(case):
    with harness.quiet():
        return judge(case)["violations"]

def run(tier, seed):
    cases = all_cases(tier)
    harness.load()
    import synapgrad.nn.utils.data      # import (sklearn, matplotlib) once, before forking
    r = engine.run_cases(cases, judge)
    cov = {"evaluations": r["evaluations"], "distinct_nontrivial": r["distinct_nontrivial"],
           "rule": "split_dataset: n in 0..%d x test_split in {0,.1,.2,.25,.5,.75,1} x val_split in {None,0,.2,.5,1} x shuffle off / "
                   "EVERY permutation (n <= %d, scripted shuffle) / 3 real seeds; DataLoader: n in 0..10 x batch 1..6 x transform "
                   "{omitted, None, identity callback, scaling callback} and label containers {1-D array, (n,1) column, (n,3) rows, Python lists}, two full passes + restart after a partial pass; transforms returning a list / dict / triple / single array are yielded as returned; one_hot_encode (labels as 1-D array, Python list, (n,1) column, list of 1-element arrays, float array): "
                   "every label sequence of length <= 4 over {0,1,2,5}, {'a','b'}, {3,-1}; non-trivial = at least 2 samples / a full batch"
                   % ((12, 4) if tier == "quick" else (16, 5)),
           "samples": r["samples"], "exhaustive": True, "outcomes": r["outcomes"]}
    return {"level": "exploration", "violations": r["violations"], "coverage": cov,
            "assumptions": ["samples carry their index in X and y, so pairing and partition are decided exactly",
                            "which samples a shuffle sends to which set is not demanded (only sizes, partition, pairing)"]}
