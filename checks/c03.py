"""C03 - gradients of arbitrary op compositions obey the chain rule on any DAG.

ALL typed straight-line programs with n op applications over leaves a:(2,), b:(2,), s:() and ops
{neg, tanh, relu, add, mul (incl. x*x, x+x), sum, unbind (2 outputs), stack, index}: every fan-out /
fan-in pattern, diamonds, dead branches, multi-output uses.  Oracle: forward-mode (dual number)
Jacobian of the whole program, independent of the engine's traversal; monitors: every reachable
backward function invoked exactly once, unreachable ones never; construction-order independence."""
import itertools
import numpy as np
from mc import harness, engine

LEAVES = [("a", "v", np.array([1.5, -0.5])), ("b", "v", np.array([0.75, 2.0])), ("s", "s", np.array(-1.25))]
NIN = 5
UN = ("neg", "tanh", "relu")

def programs_core(n):
    """n op applications over the core alphabet {tanh, add, mul, sum, unbind}, kept only if every op application is an ancestor
    of the root (no dead code): the distinct DAG shapes of depth/width n without the combinatorial padding"""
    out = []
    def rec(types, prog, k):
        if k == 0:
            if _live(prog): out.append(tuple(prog))
            return
        m = len(types)
        for i in range(m):
            rec(types + [types[i]], prog + [("tanh", i)], k - 1)
            if types[i] == "v":
                rec(types + ["s"], prog + [("sum", i)], k - 1)
                rec(types + ["s", "s"], prog + [("unbind", i)], k - 1)
        for i in range(m):
            for j in range(i, m):
                t = "v" if "v" in (types[i], types[j]) else "s"
                for op in ("add", "mul"):
                    rec(types + [t], prog + [(op, i, j)], k - 1)
    rec([t for _, t, _ in LEAVES], [], n)
    return out

def _live(prog):
    anc = value_ancestors(prog)
    seen, todo = set(), [max(anc)]
    while todo:
        k = todo.pop()
        if k in seen: continue
        seen.add(k); todo += anc[k]
    pos = len(LEAVES)
    for st in prog:
        outs = [pos, pos + 1] if st[0] == "unbind" else [pos]
        if not any(o in seen for o in outs): return False
        pos += len(outs)
    return True

def programs(n):
    """all programs with exactly n op applications; a program is a tuple of (op, operand indices)"""
    out = []
    def rec(types, prog, k):
        if k == 0:
            out.append(tuple(prog)); return
        m = len(types)
        for i in range(m):
            for op in UN:
                rec(types + [types[i]], prog + [(op, i)], k - 1)
            rec(types + ["s"], prog + [("sum", i)], k - 1)
            if types[i] == "v":
                rec(types + ["s", "s"], prog + [("unbind", i)], k - 1)
                for j in (0, 1):
                    rec(types + ["s"], prog + [("index", i, j)], k - 1)
        for i in range(m):
            for j in range(i, m):
                t = "v" if "v" in (types[i], types[j]) else "s"
                for op in ("add", "mul"):
                    rec(types + [t], prog + [(op, i, j)], k - 1)
                if types[i] == "s" and types[j] == "s":
                    rec(types + ["v"], prog + [("stack", i, j)], k - 1)
                    if i != j: rec(types + ["v"], prog + [("stack", j, i)], k - 1)
    rec([t for _, t, _ in LEAVES], [], n)
    return out

# ----------------------------------------------------------------------------- forward-mode reference
def fwd_reference(prog):
    """-> list of (value, J) for every value of the program; J has shape (value.size, 5); flag kink"""
    vals = []
    col = 0
    for _, t, x in LEAVES:
        J = np.zeros((x.size, NIN)); J[np.arange(x.size), col + np.arange(x.size)] = 1; col += x.size
        vals.append((x.astype(np.float64), J))
    kink = False
    def bc(v, J, size):
        return (np.broadcast_to(v, (size,)) if v.ndim else np.full(size, float(v)), np.broadcast_to(J, (size, NIN)))
    for st in prog:
        op = st[0]
        if op in UN:
            v, J = vals[st[1]]
            if op == "neg": vals.append((-v, -J))
            elif op == "tanh":
                y = np.tanh(v); vals.append((y, (1 - y * y).reshape(-1, 1) * J))
            else:
                if np.any(np.abs(v) < 1e-12): kink = True
                vals.append((np.maximum(v, 0), (v > 0).astype(float).reshape(-1, 1) * J))
        elif op == "sum":
            v, J = vals[st[1]]; vals.append((np.asarray(v.sum()), J.sum(axis=0, keepdims=True)))
        elif op == "unbind":
            v, J = vals[st[1]]
            vals.append((np.asarray(v[0]), J[0:1])); vals.append((np.asarray(v[1]), J[1:2]))
        elif op == "index":
            v, J = vals[st[1]]; vals.append((np.asarray(v[st[2]]), J[st[2]:st[2] + 1]))
        elif op in ("add", "mul"):
            (v1, J1), (v2, J2) = vals[st[1]], vals[st[2]]
            size = max(v1.size, v2.size)
            vec = v1.ndim or v2.ndim
            a, Ja = bc(v1, J1, size); b, Jb = bc(v2, J2, size)
            if op == "add": y, Jy = a + b, Ja + Jb
            else: y, Jy = a * b, b.reshape(-1, 1) * Ja + a.reshape(-1, 1) * Jb
            vals.append((y if vec else np.asarray(y[0]), Jy))
        elif op == "stack":
            (v1, J1), (v2, J2) = vals[st[1]], vals[st[2]]
            vals.append((np.array([float(v1), float(v2)]), np.vstack([J1, J2])))
    return vals, kink

# ----------------------------------------------------------------------------- library side
def lib_build(prog, rg, order=None):
    """build on fresh tensors (optionally in another valid construction order) -> list of value tensors"""
    sg = harness.load(); F = sg.nn.functional
    ts = [sg.Tensor(x.copy(), requires_grad=bool(r)) for (_, _, x), r in zip(LEAVES, rg)]
    # value slots: leaves then op outputs in program order
    slots = {}
    pos = len(LEAVES); out_pos = []
    for st in prog:
        out_pos.append(pos); pos += 2 if st[0] == "unbind" else 1
    vals = dict(enumerate(ts))
    for k in (order if order is not None else range(len(prog))):
        st = prog[k]; op = st[0]; p = out_pos[k]
        if op == "neg": vals[p] = -vals[st[1]]
        elif op == "tanh": vals[p] = F.tanh(vals[st[1]])
        elif op == "relu": vals[p] = F.relu(vals[st[1]])
        elif op == "sum": vals[p] = vals[st[1]].sum()
        elif op == "unbind":
            u = sg.unbind(vals[st[1]], 0); vals[p], vals[p + 1] = u[0], u[1]
        elif op == "index": vals[p] = vals[st[1]][st[2]]
        elif op == "add": vals[p] = vals[st[1]] + vals[st[2]]
        elif op == "mul": vals[p] = vals[st[1]] * vals[st[2]]
        elif op == "stack": vals[p] = sg.stack([vals[st[1]], vals[st[2]]], 0)
    return ts, [vals[i] for i in range(pos)]

def deps(prog):
    """for each op the set of ops it depends on"""
    pos = len(LEAVES); owner = {}
    for k, st in enumerate(prog):
        owner[pos] = k
        if st[0] == "unbind": owner[pos + 1] = k; pos += 2
        else: pos += 1
    d = []
    for k, st in enumerate(prog):
        ops = [x for x in st[1:3] if isinstance(x, int)] if st[0] != "index" else [st[1]]
        d.append({owner[o] for o in ops if o in owner})
    return d

def value_ancestors(prog):
    """value index -> list of operand value indices (leaves have none)"""
    anc = {i: [] for i in range(len(LEAVES))}
    pos = len(LEAVES)
    for st in prog:
        ops = [st[1]] if st[0] in UN + ("sum", "unbind", "index") else [st[1], st[2]]
        anc[pos] = list(ops)
        if st[0] == "unbind": anc[pos + 1] = list(ops); pos += 2
        else: pos += 1
    return anc

def judge(case):
    sg = harness.load()
    prog = tuple(tuple(s) for s in case["prog"]); rg = case["rg"]
    viol = []
    def v(sym, detail):
        if all(x["kind"] != sym for x in viol): viol.append({"kind": sym, "detail": detail})
    ref, kink = fwd_reference(prog)
    BF = sg.functional.BackwardFunction
    calls = {}
    orig = BF.__call__
    def counting(self):
        calls[id(self)] = calls.get(id(self), 0) + 1
        return orig(self)
    nontrivial = False
    try:
        BF.__call__ = counting
        ts, vals = lib_build(prog, rg)
        root = vals[-1]
        rv, rJ = ref[-1]
        if not np.allclose(np.asarray(root.data, dtype=np.float64), rv, rtol=1e-12, atol=1e-12):
            v("forward-value", f"root value {np.asarray(root.data)} vs forward-mode {rv}")
        any_rg_path = bool(root.requires_grad)
        # which leaves influence the root and require grad
        expect_rg = any(rg[i] and np.any(rJ[:, c0:c1] != 0) for i, (c0, c1) in enumerate(((0, 2), (2, 4), (4, 5))))
        if not any_rg_path:
            # structurally there may still be no tracked path; then backward must be refused
            try:
                root.backward(sg.Tensor(np.ones(root.shape)))
                v("backward-accepted-without-grad-path", "root does not require grad but backward() was accepted")
            except Exception:
                pass
            return {"nontrivial": False, "outcome": "untracked", "violations": viol}
        m = max(1, root.size)
        for gi in range(m):
            ts, vals = lib_build(prog, rg)
            root = vals[-1]
            g = np.zeros(root.shape); g.reshape(-1)[gi] = 1.0
            calls.clear()
            try:
                root.backward(sg.Tensor(g))
            except Exception as e:
                v("backward-raised", f"{type(e).__name__}: {str(e)[:80]}"); break
            # reachable tracked ops, from the PROGRAM structure (no private attributes): values that are ancestors of the
            # root through tracked results; their public grad_fn objects are the functions that must run exactly once
            anc = value_ancestors(prog)
            reach = set(); fns = set()
            todo = [len(vals) - 1]
            while todo:
                k = todo.pop()
                if k in reach: continue
                reach.add(k)
                if vals[k].grad_fn is not None:
                    fns.add(id(vals[k].grad_fn)); todo += anc[k]
            reach = {id(vals[k]) for k in reach}
            if set(calls) != fns or any(c != 1 for c in calls.values()):
                extra = len(set(calls) - fns); miss = len(fns - set(calls)); multi = sum(1 for c in calls.values() if c != 1)
                v("not-exactly-once", f"{miss} reachable backward functions not invoked, {extra} unreachable invoked, {multi} invoked more than once")
            for i, (c0, c1) in enumerate(((0, 2), (2, 4), (4, 5))):
                gr = ts[i].grad
                exp = (rJ[gi] if rJ.shape[0] > 1 else rJ[0])[c0:c1].reshape(LEAVES[i][2].shape)
                if not rg[i]:
                    if gr is not None: v("grad-on-leaf-not-requiring-grad", f"leaf {LEAVES[i][0]} got a gradient")
                    continue
                if id(ts[i]) not in reach:
                    if gr is not None and np.any(np.asarray(gr.data) != 0): v("grad-on-unreachable-leaf", f"leaf {LEAVES[i][0]} is not an ancestor of the root but has gradient {gr.data}")
                    continue
                if kink: continue
                nontrivial = nontrivial or bool(np.any(exp != 0))
                got = None if gr is None else np.asarray(gr.data, dtype=np.float64)
                if got is None or got.shape != exp.shape or not np.allclose(got, exp, rtol=1e-10, atol=1e-12):
                    v("wrong-total-derivative", f"d root[{gi}] / d {LEAVES[i][0]}: engine {got}, forward-mode (sum over all paths) {exp}")
        # construction-order independence: every topological re-ordering of independent ops, bitwise
        if case.get("orders") and len(prog) >= 2 and not viol:
            d = deps(prog)
            base = None
            for perm in itertools.permutations(range(len(prog))):
                if any(any(perm.index(x) > perm.index(k) for x in d[k]) for k in range(len(prog))): continue
                ts, vals = lib_build(prog, rg, order=perm)
                root = vals[-1]
                root.backward(sg.Tensor(np.ones(root.shape)))
                sig = tuple(None if t.grad is None else np.asarray(t.grad.data).tobytes() for t in ts)
                if base is None: base = sig
                elif sig != base:
                    v("construction-order-dependence", f"building the ops in order {perm} changes the leaf gradients"); break
    finally:
        BF.__call__ = orig
    return {"nontrivial": nontrivial, "outcome": "ok", "violations": viol}

def judge_embedded(case):
    """every differentiable catalogue operation (tensor ops and functional nn ops) inside a DAG; see gradcheck.check_embedded"""
    from mc import gradcheck
    c = case["case"]
    if case["embed"] == "tensor":
        from mc import catalog_tensor as cat
        arrays = cat.arrays_for(c); diff = list(range(len(arrays)))
        apply = lambda ts: cat.OPS[c["op"]].lib(harness.load(), ts, c.get("args") or {})
    else:
        from mc import catalog_nn as cat
        arrays = cat.arrays_for(c); diff = cat.diff_idx(c, arrays)
        apply = lambda ts: cat.run_lib(c, arrays, None, ts_override=ts)[0]
    diff = [k for k in diff if np.asarray(arrays[k]).dtype.kind == "f"]
    if not diff:
        return {"nontrivial": False, "outcome": "no-differentiable-operand", "violations": []}
    viol, ran = gradcheck.check_embedded(apply, arrays, diff, "embedded:" + c["op"])
    return {"nontrivial": ran, "outcome": "embedded" if ran else "skipped", "violations": viol}

def judge_any(case):
    return judge_embedded(case) if "embed" in case else judge(case)

def embedded_cases(tier):
    from mc import catalog_tensor, catalog_nn
    out = []
    for c in catalog_tensor.cases(tier, "grad"):
        if "ties" in (c.get("pats") or []): continue
        out.append({"embed": "tensor", "case": c})
    for c in catalog_nn.cases(tier, "grad"):
        pats = c.get("pats") or []
        if c.get("form", "fn") != "fn" or "ties" in pats or "with_zeros" in pats: continue
        out.append({"embed": "nn", "case": c})
    return out

def all_cases(tier):
    out = []
    subsets = [tuple(bool((m >> i) & 1) for i in range(3)) for m in range(1, 8)]
    for n in ((1, 2) if tier == "quick" else (1, 2, 3)):
        for p in programs(n):
            for rg in subsets:
                out.append({"prog": [list(s) for s in p], "rg": list(rg), "orders": True})
    if tier == "quick":
        for p in programs(3):
            out.append({"prog": [list(s) for s in p], "rg": [True, True, True], "orders": False})
    else:
        for p in programs_core(4):
            out.append({"prog": [list(s) for s in p], "rg": [True, True, True], "orders": True})
    return out

def replay(case):
    with harness.quiet():
        return judge_any(case)["violations"]

def run(tier, seed):
    cases = all_cases(tier)
    r = engine.run_cases(cases, judge)
    nprog = len({harness.digest(c["prog"]) for c in cases})
    emb = embedded_cases(tier)
    r2 = engine.run_cases(emb, judge_embedded)
    r["violations"] = r["violations"] + r2["violations"]
    cov = {"states": nprog, "transitions": sum(len(c["prog"]) for c in cases), "traces_validated_against_impl": r["evaluations"],
           "evaluations": r["evaluations"], "distinct_nontrivial": r["distinct_nontrivial"],
           "samples": r["samples"], "exhaustive": True, "outcomes": r["outcomes"],
           "embedded_catalogue_cases": {"evaluations": r2["evaluations"], "distinct_nontrivial": r2["distinct_nontrivial"], "outcomes": r2["outcomes"],
                                        "rule": "every differentiable case of the tensor-op lattice (C01) and every functional case of the nn lattice (C02), "
                                                "placed inside a DAG: each differentiable operand is an interior node (leaf * 1.0) that also feeds a sibling "
                                                "branch, the operation is applied twice to the same operand tensors, its first result is consumed twice; both "
                                                "construction orders; leaf and retained interior gradients == gradient of the operation alone under the summed "
                                                "upstream gradient + the sibling's contribution"},
           "rule": "ALL typed straight-line programs with n op applications over leaves a:(2,), b:(2,), s:() and ops {neg, tanh, relu, add, mul, "
                   "sum, unbind, stack, index}, each op choosing operands among all earlier values: %s; root = last value, upstream gradient over "
                   "the basis; leaf gradients vs forward-mode Jacobian of the whole program; backward functions invoked exactly once / never; "
                   "all topological construction orders give bitwise-equal gradients; states = distinct programs, transitions = op applications; "
                   "non-trivial = some leaf has a non-zero expected gradient"
                   % ("n <= 2 x all 7 non-empty requires_grad subsets, n = 3 with all leaves requiring grad" if tier == "quick" else "n <= 3 x all 7 non-empty requires_grad subsets, plus n = 4 over the core alphabet {tanh, add, mul, sum, unbind} without dead code, all leaves requiring grad"),
           }
    return {"level": "model_checking", "violations": r["violations"], "coverage": cov,
            "assumptions": ["programs whose relu input is exactly 0 are not compared (kink)", "leaf values fixed: a=(1.5,-0.5), b=(0.75,2.0), s=-1.25"]}
