"""C05 - forward results of tensor ops and constructors match the NumPy/PyTorch definition they mirror.

Bounded-exhaustive enumeration of the tensor-op argument lattice (accept AND reject side) against
torch/NumPy as reference semantics; constructors under a controlled random source; iteration."""
import itertools
import numpy as np
from mc import harness, engine, catalog_tensor as cat, lattice, values

RT, AT = 1e-9, 1e-10

def _outcome(fn):
    try:
        return ("ok", fn())
    except harness.HarnessError:
        raise
    except Exception as e:
        return ("raise", f"{type(e).__name__}: {str(e)[:80]}")

def judge_int(case):
    """integer-dtype operands: an operation may refuse them (its documentation speaks of floating tensors), but an accepted
    call returns the mathematical result - what torch returns for integer tensors, or the value computed in float64 -
    never a truncated one"""
    op = case["op"]
    base = [np.asarray(values.small_int(tuple(s), salt=3 * i), dtype=np.int64) for i, s in enumerate(case["shapes"])]
    if case.get("nonzero"): base = [np.where(a == 0, 4, a) for a in base]
    lib = _outcome(lambda: np.asarray(cat.run_lib(case, [a.copy() for a in base])[0].data))
    viol = []
    if lib[0] == "ok":
        refs = []
        for arrs in ([a.copy() for a in base], [a.astype(np.float64) for a in base]):
            r = _outcome(lambda: cat.run_ref(case, arrs))
            if r[0] == "ok": refs.append(np.asarray(r[1], dtype=np.float64))
        got = np.asarray(lib[1], dtype=np.float64)
        if refs and not any(got.shape == r.shape and np.allclose(got, r, rtol=1e-6, atol=1e-9, equal_nan=True) for r in refs):
            viol.append({"kind": f"{op}:integer-operands-value", "detail": f"int64 operands {[a.tolist() for a in base]}: library returned {got.tolist()}, "
                         f"neither torch's integer result nor the float64 value {refs[-1].tolist()}"})
    return {"nontrivial": lib[0] == "ok", "outcome": "int-" + lib[0], "violations": viol}

def int_cases():
    out = []
    for s in ((), (3,), (2, 3)):
        for o in ("add", "sub", "mul", "neg"):
            out.append({"op": o, "shapes": [list(s)] * (1 if o == "neg" else 2), "args": {}, "int_operands": True})
        out.append({"op": "div", "shapes": [list(s), list(s)], "args": {}, "int_operands": True, "nonzero": True})
        for c in (2, 3.0, -4):
            out.append({"op": "divc", "shapes": [list(s)], "args": {"c": c}, "int_operands": True, "nonzero": True})
            out.append({"op": "rdiv", "shapes": [list(s)], "args": {"c": c}, "int_operands": True, "nonzero": True})
            out.append({"op": "mulc", "shapes": [list(s)], "args": {"c": c}, "int_operands": True})
        for n in (2, 3, -1, -1.0, -2, 0.5, 2.0, 0):
            out.append({"op": "pow", "shapes": [list(s)], "args": {"n": n}, "int_operands": True, "nonzero": True})
        out.append({"op": "sum", "shapes": [list(s)], "args": {"dim": None, "keepdims": False}, "int_operands": True})
    out.append({"op": "matmul", "shapes": [[2, 3], [3, 2]], "args": {}, "int_operands": True})
    return out

def judge(case):
    op = case["op"]
    if case.get("int_operands"):
        return judge_int(case)
    if op.startswith("ctor:") or op.startswith("iter:"):
        return SPECIAL[op.split(":")[0]](case)
    arrays = cat.arrays_for(case)
    snap = [a.copy() for a in arrays]
    # the same call on float32 operands first: whatever it leaves behind in the process must not change the float64 answer
    warm = _outcome(lambda: np.asarray(cat.run_lib(case, [a.astype(np.float32) for a in arrays])[0].data))
    lib = _outcome(lambda: np.asarray(cat.run_lib(case, arrays)[0].data))
    # docstring override: matmul needs >= 2-D operands
    if op == "matmul" and min(len(s) for s in case["shapes"]) < 2:
        ref = ("raise", "documented: at least two dimensions are required")
    else:
        ref = _outcome(lambda: cat.run_ref(case, snap))
    viol = []
    tag = f"{lib[0]}/{ref[0]}"
    if lib[0] == "raise" and ref[0] == "ok":
        viol.append({"kind": f"{op}:spurious-reject", "detail": f"library raised {lib[1]}; reference returns shape {ref[1].shape}"})
    elif lib[0] == "ok" and ref[0] == "raise":
        viol.append({"kind": f"{op}:accepted-but-reference-rejects", "detail": f"library returned shape {lib[1].shape}; reference: {ref[1]}"})
    elif lib[0] == "ok":
        a, b = lib[1], ref[1]
        if tuple(a.shape) != tuple(b.shape):
            viol.append({"kind": f"{op}:shape", "detail": f"library shape {a.shape}, reference {b.shape}"})
        elif not np.allclose(a, b, rtol=RT, atol=AT, equal_nan=True):
            viol.append({"kind": f"{op}:value", "detail": f"max abs diff {np.nanmax(np.abs(a.astype(np.float64) - b))}"})
    # the same operands in other memory layouts (Fortran order, strided view): values are defined on the logical array
    if lib[0] == "ok" and ref[0] == "ok" and not viol and any(a.ndim >= 2 and a.size > 1 for a in arrays):
        for lname, conv in (("fortran-order", lambda a: np.asfortranarray(a)), ("strided-view", _strided)):
            alt = [conv(a) for a in snap]
            r2 = _outcome(lambda: np.asarray(cat.run_lib(case, alt, copy=False)[0].data))
            if r2[0] != "ok":
                viol.append({"kind": f"{op}:layout-dependent", "detail": f"operands given in {lname} layout: library raised {r2[1]}"})
            elif tuple(r2[1].shape) != tuple(ref[1].shape) or not np.allclose(r2[1], ref[1], rtol=RT, atol=AT, equal_nan=True):
                viol.append({"kind": f"{op}:layout-dependent", "detail": f"operands given in {lname} layout: result differs from the reference (shape {r2[1].shape})"})
    if warm[0] == "ok" and lib[0] == "ok" and warm[1].dtype != np.float32 and lib[1].dtype == np.float64:
        viol.append({"kind": f"{op}:float32-result-dtype", "detail": f"float32 operands gave a {warm[1].dtype} result"})
    return {"nontrivial": lib[0] == "ok" and lib[1].size >= 1 and any(int(np.prod(s, dtype=int)) > 1 for s in case["shapes"]),
            "outcome": tag, "violations": viol}

def _strided(a):
    """same logical values, stored with stride 2 along the last axis (non-contiguous view)"""
    if a.ndim == 0: return a
    big = np.zeros(a.shape[:-1] + (2 * a.shape[-1],), dtype=a.dtype)
    big[..., ::2] = a
    return big[..., ::2]

# ----------------------------------------------------------------------------- constructors
def ctor_cases():
    out = []
    def add(name, **kw):
        out.append({"op": "ctor:" + name, "shapes": [], "args": kw})
    shp = [(), (1,), (3,), (2, 3), (2, 1, 3)]
    for s in shp:
        for spell in ("varargs", "tuple", "list"):
            for dt in (None, "float32", "float64", "int32", "int64"):
                for f in ("empty", "ones", "zeros", "rand", "randn"):
                    if spell == "varargs" and s == (): continue
                    add(f, shape=list(s), spell=spell, dtype=dt)
        for dt in (None, "float32", "float64", "int32", "int64"):
            for f in ("ones_like", "zeros_like"):
                for src in ("float32", "float64", "int64"):
                    add(f, shape=list(s), dtype=dt, src=src)
            add("normal", shape=list(s), dtype=dt, loc=1.5, scale=0.5)
            add("randint", shape=list(s), dtype=dt, low=-2, high=5)
    for dt in (None, "float32", "float64", "int32", "int64"):
        for iv in ([5], [0], [2, 7], [1, 8, 3], [0, 1, 0.25], [5, 1, -2], [16777216, 16777220], [3, 3]):
            add("arange", interval=iv, dtype=dt)
        for n in (0, 1, 3):
            add("eye", n=n, dtype=dt)
        for data in ([1, 2, 3], [[1.5, -2], [0, 4]], 7, 2.5, [16777217, 3], [], [[1], [2]], True, [0.1]):
            add("tensor", data=data, dtype=dt)
    return out

def _dt(name):
    return None if name is None else np.dtype(name).type

def judge_ctor(case):
    from mc import randsrc
    sg = harness.load(); t = harness.torch()
    A = case["args"]; name = case["op"].split(":", 1)[1]
    viol = []
    def v(sym, detail): viol.append({"kind": f"{name}:{sym}", "detail": detail})
    dt = _dt(A.get("dtype"))
    exp_dt = np.dtype(dt) if dt is not None else np.dtype(np.float32)
    def call_shape(f, s, **kw):
        sp = A.get("spell", "tuple")
        if sp == "varargs": return f(*s, **kw)
        if sp == "list": return f(list(s), **kw)
        return f(tuple(s), **kw)
    s = tuple(A.get("shape", ()))
    try:
        if name in ("empty", "ones", "zeros"):
            r = call_shape(getattr(sg, name), s, dtype=dt)
            exp = {"empty": None, "ones": np.ones(s), "zeros": np.zeros(s)}[name]
        elif name in ("ones_like", "zeros_like"):
            src = sg.Tensor(np.full(s, 3, dtype=A["src"]))
            r = getattr(sg, name)(src, dtype=dt)
            exp = np.ones(s) if name == "ones_like" else np.zeros(s)
            if dt is None: exp_dt = np.dtype(A["src"])
        elif name in ("rand", "randn", "normal", "randint"):
            n = int(np.prod(s, dtype=int))
            us = [(0.0137 + 0.6180339887 * k) % 1.0 for k in range(n)]
            zs = [((k * 0.7548776662) % 1.0) * 4 - 2 for k in range(n)]
            with randsrc.controlled(u=us, z=zs) as src:
                if name == "rand": r = call_shape(sg.rand, s, dtype=dt); exp = np.array(us).reshape(s)
                elif name == "randn": r = call_shape(sg.randn, s, dtype=dt); exp = np.array(zs).reshape(s)
                elif name == "normal":
                    r = sg.normal(A["loc"], A["scale"], *s, dtype=dt); exp = A["loc"] + A["scale"] * np.array(zs).reshape(s)
                else:
                    r = sg.randint(A["low"], A["high"], s, dtype=dt)
                    exp = A["low"] + np.floor(np.array(us) * (A["high"] - A["low"])).reshape(s)
                    if dt is None: exp_dt = np.dtype(np.int32)
            if dt is not None and np.issubdtype(dt, np.integer) and name != "randint":
                exp = np.trunc(exp)
        elif name == "arange":
            r = sg.arange(*A["interval"], dtype=dt)
            tdt = {None: t.float32, "float32": t.float32, "float64": t.float64, "int32": t.int32, "int64": t.int64}[A.get("dtype")]
            exp = t.arange(*A["interval"], dtype=tdt).numpy()
        elif name == "eye":
            r = sg.eye(A["n"], dtype=dt); exp = np.eye(A["n"])
        elif name == "tensor":
            r = sg.tensor(A["data"], dtype=dt)
            tdt = {None: t.float32, "float32": t.float32, "float64": t.float64, "int32": t.int32, "int64": t.int64}[A.get("dtype")]
            exp = t.tensor(A["data"], dtype=tdt).numpy()
        else:
            raise harness.HarnessError("unknown ctor " + name)
    except harness.HarnessError:
        raise
    except Exception as e:
        v("spurious-reject", f"{type(e).__name__}: {str(e)[:100]}")
        return {"nontrivial": True, "outcome": "raise", "violations": viol}
    d = np.asarray(r.data)
    if exp is not None and tuple(d.shape) != tuple(np.asarray(exp).shape):
        v("shape", f"shape {d.shape}, expected {np.asarray(exp).shape}")
    elif exp is None and tuple(d.shape) != s:
        v("shape", f"shape {d.shape}, expected {s}")
    if d.dtype != exp_dt:
        v("dtype", f"dtype {d.dtype}, expected {exp_dt}")
    elif exp is not None and not viol:
        e2 = np.asarray(exp).astype(exp_dt)
        tol = 1e-6 if exp_dt == np.float32 else 1e-12
        if not np.allclose(d.astype(np.float64), e2.astype(np.float64), rtol=tol, atol=tol):
            v("value", f"got {d.ravel()[:4]}, expected {e2.ravel()[:4]}")
    if r.requires_grad:
        v("requires_grad", "constructor result requires grad although not asked")
    return {"nontrivial": True, "outcome": "ok", "violations": viol}

# ----------------------------------------------------------------------------- iteration
def iter_cases():
    out = []
    for s in [(1,), (3,), (2, 3), (3, 2), (2, 1, 3), (3, 3, 2), ()]:
        for mode in ("len", "list", "two_iterators", "nested", "zip_self", "restart_after_break"):
            out.append({"op": "iter:" + mode, "shapes": [list(s)], "args": {}})
    return out

def judge_iter(case):
    sg = harness.load()
    s = tuple(case["shapes"][0]); mode = case["op"].split(":", 1)[1]
    x = values.generic(s)
    tt = sg.Tensor(x.copy())
    def lib():
        if mode == "len": return [np.array(len(tt))]
        if mode == "list": return [np.asarray(r.data) for r in tt]
        if mode == "two_iterators":
            i1, i2 = iter(tt), iter(tt); o = [next(i1)]; o += [next(i2)]; o += [r for r in i1]; o += [r for r in i2]
            return [np.asarray(r.data) for r in o]
        if mode == "nested": return [np.asarray(a.data) - np.asarray(b.data) for a in tt for b in tt]
        if mode == "zip_self": return [np.asarray(a.data) * np.asarray(b.data) for a, b in zip(tt, tt)]
        if mode == "restart_after_break":
            o = []
            for r in tt:
                o.append(r); break
            o += [r for r in tt]
            return [np.asarray(r.data) for r in o]
    def ref():
        if mode == "len": return [np.array(len(x))]
        if mode == "list": return [np.asarray(r) for r in x]
        if mode == "two_iterators":
            i1, i2 = iter(x), iter(x); o = [next(i1)]; o += [next(i2)]; o += [r for r in i1]; o += [r for r in i2]
            return [np.asarray(r) for r in o]
        if mode == "nested": return [np.asarray(a) - np.asarray(b) for a in x for b in x]
        if mode == "zip_self": return [np.asarray(a) * np.asarray(b) for a, b in zip(x, x)]
        if mode == "restart_after_break":
            o = []
            for r in x:
                o.append(r); break
            o += [r for r in x]
            return [np.asarray(r) for r in o]
    L, R = _outcome(lib), _outcome(ref)
    viol = []
    kind = None
    if L[0] != R[0]:
        kind, det = ("spurious-reject" if L[0] == "raise" else "accepted-but-reference-rejects"), f"library {L}, reference {R[0]}"
    elif L[0] == "ok":
        if len(L[1]) != len(R[1]): kind, det = "count", f"{len(L[1])} items, reference {len(R[1])}"
        else:
            for a, b in zip(L[1], R[1]):
                if a.shape != b.shape or not np.allclose(a, b, rtol=RT, atol=AT):
                    kind, det = "value", f"item {a} vs {b}"; break
    if kind: viol.append({"kind": f"iter-{mode}:{kind}", "detail": det})
    return {"nontrivial": len(s) >= 1, "outcome": L[0] + "/" + R[0], "violations": viol}

SPECIAL = {"ctor": judge_ctor, "iter": judge_iter}

def all_cases(tier):
    base = cat.cases(tier, "forward")
    extra = []
    if tier == "thorough":       # value-scale variants of every case whose operands are 'generic'
        for c in cat.cases("quick", "forward"):
            if not c.get("pats") and c["op"] not in ("pow", "rpow", "exp"):
                for m in ("tiny", "large", "offset", "ones") + (() if c["op"] in ("log", "div", "rdiv") else ("zeros",)):
                    extra.append(dict(c, vmod=m))
    return base + extra + ctor_cases() + iter_cases() + int_cases()

def replay(case):
    with harness.quiet():
        return judge(case)["violations"]

def run(tier, seed):
    cases = all_cases(tier)
    r = engine.run_cases(cases, judge)
    ops = sorted({c["op"] for c in cases})
    cov = {"evaluations": r["evaluations"], "distinct_nontrivial": r["distinct_nontrivial"],
           "rule": "every case of the tensor-op argument lattice (shapes of rank<=%s over {1,2,3}%s, every legal dim / dim tuple / "
                   "keepdims / source-destination / start-end / size-step / index expression / reshape target, accept and reject "
                   "side), constructors over shape spellings x dtypes under a scripted random source, iteration modes; "
                   "non-trivial = library accepted and some operand has > 1 element; distinct = descriptor hash"
                   % (("4", "") if tier == "quick" else ("4", " plus rank 5 over {1,2}")),
           "samples": r["samples"], "exhaustive": True, "outcomes": r["outcomes"], "ops": len(ops)}
    return {"level": "exploration", "violations": r["violations"], "coverage": cov,
            "assumptions": ["torch 2.x / NumPy are the reference semantics; matmul with <2-D operands must raise (docstring)",
                            "addmm reference is x1 + x2 @ x3 (docstring), not torch.addmm's shape restriction",
                            "values are a finite separated alphabet; float64 comparison at rtol 1e-9"]}
