"""C07 - requires_grad propagation and grad-mode contexts behave like a stack.

Explicit-state BFS over histories of context/tensor events on the real library, in lock-step with
a stack-machine reference model (DESIGN.md section 3, C07)."""
import json
import numpy as np
from mc import harness, explorer

MAX_CTX = 3
MAX_TEN = 4
THOROUGH = False

class World:
    def __init__(self):
        self.sg = harness.load()
        harness.reset_modes(verify=False)
        sg = self.sg
        self.P = sg.Tensor(np.array(1.0), requires_grad=True)
        if not self.P.requires_grad or not (self.P * 2.0).requires_grad:
            raise harness.HarnessError("cannot start a world with gradient mode enabled")
        self.ctx = []        # [kind, object, active]
        self.stack = []      # indices of active contexts (LIFO)
        self.ten = []        # real tensors
        # ---- reference model ----
        self.m_grad = True
        self.m_ret = False
        self.m_saved = []    # (kind, mode at the matching enter)
        self.m = []          # per tensor: dict
        # the world starts with one float64 leaf that requires grad (saves one event of depth)
        self.ten.append(sg.Tensor(np.array([1.5, -0.5]), requires_grad=True))
        self.m.append(self._new_model(True, False, True))

    # -------------------------------------------------------------- events
    def enabled(self):
        ev = []
        if len(self.ctx) < MAX_CTX:
            ev += [("new", "ng"), ("new", "rg")]
        for i, (k, o, a) in enumerate(self.ctx):
            if not a:
                ev.append(("enter", i))
        if self.stack:
            ev += [("exit", self.stack[-1], False), ("exit", self.stack[-1], True)]
        if len(self.ten) < MAX_TEN:
            ev += [("leaf", True, "f64"), ("leaf", False, "f64"), ("leaf", True, "i64")]
            if THOROUGH:
                ev.append(("leaf", True, "f32"))
            for i in range(len(self.ten)):
                if self.m[i]["float"]:
                    ev += [("op1", i), ("detach", i)]
                    if self.ten[i].ndim >= 1:
                        ev.append(("unbind", i))
                for j in range(i, len(self.ten)):
                    if self.m[i]["float"] and self.m[j]["float"]:
                        ev.append(("op2", i, j))
        for i in range(len(self.ten)):
            ev += [("toggle", i, True), ("toggle", i, False), ("retain", i), ("bw", i)]
            if self.m[i]["rg"] and (THOROUGH or i in (0, len(self.ten) - 1)):
                ev.append(("bwbad", i))      # a backward call that fails (upstream gradient of the wrong shape); quick: first / newest tensor
        return ev

    def _new_model(self, rg, nonleaf, fl, parents=(), origin="ctor"):
        # origin: how the tensor came about.  The specification does not distinguish a constructed leaf from an untracked
        # operation result, but an implementation can (it may remember the operation): keeping it in the canonical state stops
        # the search from merging the two, so histories through untracked results are explored in their own right.
        return dict(rg=bool(rg), nonleaf=bool(nonleaf), float=fl, retain=False, under_ret=self.m_ret, origin=origin,
                    grad=False, gradknown=True, parents=tuple(parents), used=False, ever_rg=bool(rg))

    def apply(self, e, check=True):
        with harness.quiet():
            return self._apply(e, check)

    def _apply(self, e, check=True):
        sg = self.sg
        bad = []
        def v(kind, detail):
            bad.append({"kind": kind, "detail": detail})
        def attempt(fn):
            try:
                return False, fn()
            except Exception as ex:
                return True, ex
        k = e[0]
        if k == "new":
            self.ctx.append([e[1], sg.no_grad() if e[1] == "ng" else sg.retain_grads(), False])
        elif k == "enter":
            kind, o, _ = self.ctx[e[1]]
            raised, r = attempt(o.__enter__)
            if raised: v("enter-raised", repr(r))
            self.ctx[e[1]][2] = True
            self.stack.append(e[1])
            if kind == "ng":
                self.m_saved.append(("ng", self.m_grad)); self.m_grad = False
            else:
                self.m_saved.append(("rg", self.m_ret)); self.m_ret = True
        elif k == "exit":
            kind, o, _ = self.ctx[e[1]]
            if e[2]:
                try:
                    raise KeyError("boom")
                except KeyError as ex:
                    raised, r = attempt(lambda: o.__exit__(type(ex), ex, ex.__traceback__))
                if raised: v("exit-raised", repr(r))
                elif r: v("exit-swallowed-exception", f"__exit__ returned {r!r}")
            else:
                raised, r = attempt(lambda: o.__exit__(None, None, None))
                if raised: v("exit-raised", repr(r))
            self.ctx[e[1]][2] = False
            self.stack.pop()
            kk, prev = self.m_saved.pop()
            if kk == "ng": self.m_grad = prev
            else: self.m_ret = prev
        elif k == "leaf":
            want, dt = e[1], e[2]
            fl = dt != "i64"
            data = {"f64": np.array([1.5, -0.5]), "f32": np.array([1.5, -0.5], dtype=np.float32),
                    "i64": np.array([1, 2], dtype=np.int64)}[dt]
            raised, t = attempt(lambda: sg.Tensor(data, requires_grad=want))
            if want and not fl:
                # only floating-point tensors can be made to require grad
                if not raised and t.requires_grad:
                    v("nonfloat-requires-grad", f"Tensor(int64, requires_grad=True) accepted with requires_grad={t.requires_grad}")
                if not raised:
                    self.ten.append(t); self.m.append(self._new_model(False, False, fl))
            elif raised:
                v("leaf-ctor-raised", f"{e}: {t!r}")
            else:
                # a leaf is not an operation result: under no_grad either flag value is acceptable
                # (torch keeps True, synapgrad drops it); the model continues from the observed one
                rg = want if self.m_grad else bool(t.requires_grad) and want
                self.ten.append(t); self.m.append(self._new_model(rg, False, fl))
        elif k in ("op1", "op2", "unbind"):
            if k == "op1":
                ps = (e[1],); f = lambda: sg.nn.functional.tanh(self.ten[e[1]]) if hasattr(sg, "nn") else self.ten[e[1]] * 2.0
            elif k == "op2":
                ps = (e[1], e[2]); f = lambda: self.ten[e[1]] * self.ten[e[2]]
            else:
                ps = (e[1],); f = lambda: sg.unbind(self.ten[e[1]], 0)[1]
            raised, t = attempt(f)
            if raised:
                v("op-raised", f"{e}: {t!r}")
            else:
                rg = self.m_grad and any(self.m[p]["rg"] for p in ps)
                if rg:
                    for p in ps: self.m[p]["used"] = True
                origin = "op" if rg else ("op-nograd" if any(self.m[p]["rg"] for p in ps) else "op-const")
                self.ten.append(t); self.m.append(self._new_model(rg, rg, True, ps if rg else (), origin=origin))
        elif k == "detach":
            raised, t = attempt(lambda: self.ten[e[1]].detach())
            if raised: v("op-raised", f"{e}: {t!r}")
            else:
                self.ten.append(t); self.m.append(self._new_model(False, False, True, origin="detach"))
        elif k == "toggle":
            i, val = e[1], e[2]; m = self.m[i]
            def f(): self.ten[i].requires_grad = val
            raised, r = attempt(f)
            if val and not m["float"]:
                if not raised and self.ten[i].requires_grad:
                    v("nonfloat-requires-grad", f"int tensor accepted requires_grad=True")
            elif m["nonleaf"]:
                pass    # raising or a no-op are both fine; any flag change is caught by the comparison below
            else:
                if raised:
                    v("toggle-leaf-raised", f"{e}: {r!r}")
                else:
                    if m["rg"] != bool(val) and m["used"] and m["grad"] is not True:
                        m["gradknown"] = False     # flag changed after use in a graph, no gradient yet: whether one arrives later is unspecified
                    # a leaf that already HOLDS a gradient keeps it whatever happens to the flag (torch keeps .grad after requires_grad_(False))
                    m["rg"] = bool(val)
                    if val: m["ever_rg"] = True
        elif k == "retain":
            i = e[1]; m = self.m[i]
            raised, r = attempt(lambda: self.ten[i].retain_grad())
            if m["rg"]:
                if raised: v("retain_grad-raised", f"{e}: {r!r}")
                else: m["retain"] = True
            # on a tensor that does not require grad: raising (torch, synapgrad) or ignoring are both fine
        elif k == "bw":
            i = e[1]; m = self.m[i]
            t = self.ten[i]
            g = sg.Tensor(np.ones(t.shape, dtype=t.dtype if m["float"] else np.float64))
            raised, r = attempt(lambda: t.backward(g))
            if not m["rg"]:
                if not raised:
                    v("backward-accepted-without-requires_grad", f"{e}")
            elif raised:
                v("backward-raised", f"{e}: {r!r}")
            else:
                self._model_backward(i)
        elif k == "bwbad":
            i = e[1]; t = self.ten[i]
            g = sg.Tensor(np.ones(tuple(t.shape) + (2,), dtype=np.float64))
            raised, r = attempt(lambda: t.backward(g))
            if not raised:
                v("backward-accepted-misshaped-gradient", f"{e}: backward(g) with g of shape {g.shape} for a tensor of shape {t.shape}")
            # a refused call leaves everything as it was: modes are compared below; which gradients a failing call may already have
            # written is not specified, so the model stops predicting them for the tensors it could have reached
            reach, todo = [], [i]
            while todo:
                n = todo.pop()
                if n in reach: continue
                reach.append(n)
                if self.m[n]["nonleaf"]: todo += list(self.m[n]["parents"])
            for n in reach: self.m[n]["gradknown"] = False
        else:
            raise harness.HarnessError(f"unknown event {e}")
        if check:
            bad += self._compare()
        return bad

    def _model_backward(self, root):
        reach, todo = [], [root]
        while todo:
            n = todo.pop()
            if n in reach: continue
            reach.append(n)
            if self.m[n]["nonleaf"]:
                todo += list(self.m[n]["parents"])
        for n in reach:
            m = self.m[n]
            if n == root:
                m["grad"] = True
            elif m["nonleaf"]:
                if m["retain"] or m["under_ret"]:
                    m["grad"] = True
                elif self.m_ret:
                    m["grad"] = None       # backward issued under retain_grads on a node built outside: either
                else:
                    m["grad"] = False
            elif m["rg"]:
                m["grad"] = True

    def _compare(self):
        bad = []
        def v(kind, detail):
            bad.append({"kind": kind, "detail": detail})
        obs = harness.grad_mode_probe(self.P)
        if obs != self.m_grad:
            v("grad-mode-not-restored" if obs else "grad-mode-wrongly-disabled",
              f"observed grad mode {obs}, stack model says {self.m_grad}")
        if self.m_grad and obs:
            r = harness.retain_mode_probe()
            if r is not None and r != self.m_ret:
                v("retain-mode-mismatch", f"observed retain mode {r}, stack model says {self.m_ret}")
        for i, (t, m) in enumerate(zip(self.ten, self.m)):
            if bool(t.requires_grad) != m["rg"]:
                v("requires_grad-mismatch", f"t{i}.requires_grad={t.requires_grad}, model {m['rg']}")
                continue
            if (t.grad_fn is not None) != m["nonleaf"]:
                v("grad_fn-mismatch", f"t{i}.grad_fn present={t.grad_fn is not None}, model {m['nonleaf']}")
            if bool(t.is_leaf) != (not m["nonleaf"]):
                v("is_leaf-mismatch", f"t{i}.is_leaf={t.is_leaf}, model {not m['nonleaf']}")
            has = t.grad is not None
            if not m["ever_rg"] and has:
                v("grad-on-tensor-not-requiring-grad", f"t{i} never required grad but has .grad")
            elif not m["nonleaf"]:
                # leaves keep their gradient (whether an unreached leaf may be given one is C04's business)
                if m["gradknown"] and m["grad"] is True and not has:
                    v("leaf-grad-lost", f"t{i} is a leaf that received a gradient but .grad is None (requires_grad is now {m['rg']})")
            elif m["gradknown"] and m["grad"] is not None and has != m["grad"]:
                kind = "interior-grad-not-released" if has else "retained-grad-missing"
                v(kind, f"t{i}.grad present={has}, model {m['grad']} (retain={m['retain']}, built_under_retain_grads={m['under_ret']})")
        return bad

    def canon(self):
        with harness.quiet():
            return (tuple((k, a, repr(sorted(vars(o).items()))) for k, o, a in self.ctx), tuple(self.stack),
                    self.m_grad, self.m_ret, tuple(self.m_saved),
                    tuple((m["rg"], m["nonleaf"], m["float"], m["retain"], m["under_ret"], m["grad"], m["gradknown"],
                           m["parents"], m["used"], m["ever_rg"], m["origin"], str(t.dtype), t.grad is not None)
                          for t, m in zip(self.ten, self.m)))

def make_world():
    return World()

def replay(case):
    if "reject_case" in case:
        with harness.quiet():
            return judge_reject(case["reject_case"])["violations"]
    if "flag_case" in case:
        with harness.quiet():
            return [v for v in flag_lattice()[0] if v["case"] == case]
    if "ctor" in case:
        with harness.quiet():
            return [v for v in leaf_lattice()[0] if v["case"] == case]
    w = World()
    out = []
    for e in case["history"]:
        out = w.apply(tuple(e))
    return out

def leaf_lattice():
    """every public way of making a leaf x data kind x dtype argument x grad mode, with requires_grad=True:
    the result may require grad only if its FINAL dtype is floating point, and then it must"""
    sg = harness.load()
    out = []
    f32, f64, i32, i64 = np.float32, np.float64, np.int32, np.int64
    datas = {"float64-array": np.array([1.5, 2.0]), "float32-array": np.array([1.5, 2.0], dtype=f32), "int64-array": np.array([1, 2]),
             "int32-array": np.array([1, 2], dtype=i32), "float-list": [1.5, 2.0], "int-list": [1, 2], "python-float": 2.5, "python-int": 3,
             "numpy-float-scalar": np.float64(2.5), "numpy-int-scalar": np.int64(3)}
    ctors = {}
    for dn, d in datas.items():
        ctors[f"Tensor({dn})"] = (lambda d: (lambda dt: sg.Tensor(d, requires_grad=True, dtype=dt)))(d)
        if "array" not in dn and "scalar" not in dn:
            ctors[f"tensor({dn})"] = (lambda d: (lambda dt: sg.tensor(d, requires_grad=True, dtype=dt)))(d)
    for fn in ("ones", "zeros", "empty", "rand", "randn"):
        ctors[f"{fn}(2,3)"] = (lambda fn: (lambda dt: getattr(sg, fn)(2, 3, requires_grad=True, dtype=dt)))(fn)
    ctors["eye(2)"] = lambda dt: sg.eye(2, requires_grad=True, dtype=dt)
    ctors["arange(4)"] = lambda dt: sg.arange(4, requires_grad=True, dtype=dt)
    ctors["ones_like"] = lambda dt: sg.ones_like(sg.Tensor(np.zeros(3)), requires_grad=True, dtype=dt)
    ctors["zeros_like"] = lambda dt: sg.zeros_like(sg.Tensor(np.zeros(3)), requires_grad=True, dtype=dt)
    ctors["normal"] = lambda dt: sg.normal(0.0, 1.0, 3, requires_grad=True, dtype=dt)
    # wrapping an EXISTING tensor (of the dtype under test) with the flag switched on
    _src = lambda dt: sg.Tensor(np.array([1, 0, 2]).astype(dt if dt is not None else np.int64))
    ctors["Tensor(tensor)"] = lambda dt: sg.Tensor(_src(dt), requires_grad=True)
    ctors["Parameter(tensor)"] = lambda dt: sg.nn.Parameter(_src(dt), requires_grad=True)
    viols = []; n = 0
    for cname, mk in ctors.items():
        for dt in (None, f32, f64, i32, i64, np.complex64, np.complex128, np.bool_, np.uint8, np.float16):
            for mode in ("grad", "no_grad"):
                n += 1
                harness.reset_modes(verify=False)
                case = {"history": [], "ctor": cname, "dtype": None if dt is None else np.dtype(dt).name, "mode": mode}
                try:
                    if mode == "no_grad":
                        with sg.no_grad(): t = mk(dt)
                    else: t = mk(dt)
                    raised = None
                except Exception as e:
                    t, raised = None, e
                if t is not None:
                    fl = t.dtype.kind == "f"
                    if t.requires_grad and not fl:
                        viols.append({"kind": "nonfloat-requires-grad", "detail": f"{cname} dtype={case['dtype']} ({mode}): {t.dtype} tensor requires grad", "case": case})
                    if fl and mode == "grad" and not t.requires_grad:
                        viols.append({"kind": "float-leaf-lost-requires-grad", "detail": f"{cname} dtype={case['dtype']}: floating tensor created with requires_grad=True does not require grad", "case": case})
                else:
                    # refused: legitimate only if the tensor would not have been floating point
                    try:
                        probe = None
                        with sg.no_grad():
                            probe = mk(dt)
                    except Exception:
                        probe = None
                    if mode == "grad" and probe is not None and probe.dtype.kind == "f":
                        viols.append({"kind": "float-leaf-refused", "detail": f"{cname} dtype={case['dtype']}: a floating-point tensor was refused requires_grad=True ({type(raised).__name__})", "case": case})
    # the same through the setter: a tensor of every dtype built without the flag, then `t.requires_grad = True`
    for dt in (f32, f64, np.float16, i32, i64, np.uint8, np.bool_, np.complex64, np.complex128):
        n += 1
        harness.reset_modes(verify=False)
        case = {"history": [], "ctor": "setter", "dtype": np.dtype(dt).name, "mode": "grad"}
        try:
            t = sg.Tensor(np.array([1, 0, 1]).astype(dt))
        except Exception:
            continue
        try:
            t.requires_grad = True; raised = None
        except Exception as e:
            raised = e
        fl = t.dtype.kind == "f"
        if t.requires_grad and not fl:
            viols.append({"kind": "nonfloat-requires-grad", "detail": f"requires_grad = True accepted on a {t.dtype} tensor", "case": case})
        if fl and not t.requires_grad:
            viols.append({"kind": "float-leaf-refused", "detail": f"requires_grad = True refused on a {t.dtype} tensor ({type(raised).__name__ if raised else 'ignored'})", "case": case})
    harness.reset_modes(verify=False)
    return viols, n

def flag_lattice():
    """first sentence of the property for EVERY op of both catalogues: result requires grad  <=>  (mode enabled and some operand
    requires grad), for every subset of operand flags and both modes; results that do not require grad carry no grad_fn"""
    from mc import catalog_tensor as ct, catalog_nn as cn
    sg = harness.load()
    reps = {}
    for fam, cases in ((ct, ct.cases("quick", "grad")), (cn, cn.cases("quick", "grad"))):
        for c in cases:
            # one representative per (op, form, arity, ARGUMENTS): the flag of a result may be gated by an argument value
            # (an exponent of 0, a dropout probability of 1, keepdims ...), not only by the op
            key = (c["op"], c.get("form", "fn"), len(c["shapes"]), json.dumps(c.get("args") or {}, sort_keys=True, default=str), tuple(c.get("pats") or ()))
            reps.setdefault(key, (fam, c))
    viols = []; n = 0
    for key, (fam, c) in sorted(reps.items(), key=lambda kv: repr(kv[0])):
        arrays = fam.arrays_for(c)
        fl = [i for i, a in enumerate(arrays) if a.dtype.kind == "f"]
        if c["op"] == "batch_norm" and c["args"].get("stats"): fl = fl[:-2]     # running statistics are buffers, not operands
        for mask in range(1 << len(fl)):
            rg = [False] * len(arrays)
            for b, i in enumerate(fl): rg[i] = bool((mask >> b) & 1)
            for mode in ("grad", "no_grad"):
                harness.reset_modes(verify=False)
                try:
                    if mode == "no_grad":
                        # operands are created with their flags while the mode is enabled, the op runs inside no_grad
                        ts_in = None
                        with sg.no_grad(): out, ts = _run_with_flags(fam, c, arrays, rg, sg, inside_no_grad=True)
                    else:
                        out, ts = _run_with_flags(fam, c, arrays, rg, sg, inside_no_grad=False)
                except harness.HarnessError:
                    raise
                except Exception:
                    continue
                n += 1
                if c["op"] == "dropout" and any(out is t for t in ts): continue      # Dropout in eval mode hands back its operand itself (as torch does): no new tensor to judge; any OTHER op that returns its operand is judged like a result
                want = (mode == "grad") and any(bool(t.requires_grad) for i, t in enumerate(ts) if i in fl)
                name = c["op"] + ("" if c.get("form", "fn") == "fn" else ":" + c["form"])
                case = {"history": [], "flag_case": {"op": c["op"], "form": c.get("form", "fn"), "noperands": len(arrays), "args": json.loads(key[3])}, "requires_grad": rg, "mode": mode}
                if bool(out.requires_grad) != want:
                    viols.append({"kind": f"{name}:result-requires_grad", "detail": f"operand flags {rg}, mode {mode}: result.requires_grad={out.requires_grad}, expected {want}", "case": case})
                elif (out.grad_fn is not None) != want:
                    viols.append({"kind": f"{name}:result-grad_fn", "detail": f"operand flags {rg}, mode {mode}: grad_fn present={out.grad_fn is not None}, expected {want}", "case": case})
    harness.reset_modes(verify=False)
    return viols, n

def _run_with_flags(fam, c, arrays, rg, sg, inside_no_grad):
    """operands must get their flags while grad mode is enabled even when the op itself runs under no_grad"""
    if not inside_no_grad:
        return fam.run_lib(c, arrays, rg)
    Tn = sg.Tensor
    st = harness.tensor_module()
    made = []
    orig_init = Tn.__init__
    # create operand tensors with the mode temporarily enabled: wrap the constructor used by the catalogue helpers
    def init(self, data, *a, **k):
        if k.get("requires_grad") and not k.get("children") and not (a and a[0]):
            prev = st.gradient__; st.gradient__ = True
            try: return orig_init(self, data, *a, **k)
            finally: st.gradient__ = prev
        return orig_init(self, data, *a, **k)
    Tn.__init__ = init
    try:
        return fam.run_lib(c, arrays, rg)
    finally:
        Tn.__init__ = orig_init

def judge_reject(case):
    """a call the library refuses (any rejected case of the forward lattices, issued in each of the contexts plain / no_grad /
    retain_grads) raises and leaves the modes exactly as they were: modes are changed by the contexts only"""
    from mc import catalog_tensor as ct, catalog_nn as cn
    sg = harness.load()
    fam = cn if "form" in case else ct
    arrays = fam.arrays_for(case)
    rg = [a.dtype.kind == "f" for a in arrays]
    viol = []; rejected = False
    for ctx in ("plain", "no_grad", "retain_grads"):
        harness.reset_modes(verify=False)
        cm = {"plain": None, "no_grad": sg.no_grad, "retain_grads": sg.retain_grads}[ctx]
        raised = False
        try:
            if cm is None:
                fam.run_lib(case, arrays, rg)
            else:
                with cm():
                    try:
                        fam.run_lib(case, arrays, rg)
                    except harness.HarnessError:
                        raise
                    except Exception:
                        raised = True
                    inside = (harness.grad_mode_probe(), None)
                    if inside[0] != (ctx != "no_grad"):
                        viol.append({"kind": "rejected-call-changed-grad-mode", "detail": f"{case['op']} raised inside {ctx}; grad mode inside the block is now {inside[0]}"})
        except harness.HarnessError:
            raise
        except Exception:
            raised = True
        if not raised:
            break            # accepted: C05 / C06 territory
        rejected = True
        g = harness.grad_mode_probe(); r = harness.retain_mode_probe() if g else None
        if g is not True:
            viol.append({"kind": "rejected-call-changed-grad-mode", "detail": f"{case['op']} with {case.get('args')} raised ({ctx}); afterwards gradient tracking is disabled"})
        elif r:
            viol.append({"kind": "rejected-call-changed-retain-mode", "detail": f"{case['op']} with {case.get('args')} raised ({ctx}); afterwards retain mode is on"})
    harness.reset_modes(verify=False)
    uniq = []
    for x in viol:
        if all(u["kind"] != x["kind"] for u in uniq): uniq.append(x)
    return {"nontrivial": rejected, "outcome": "rejected" if rejected else "accepted", "violations": uniq}

def run(tier, seed):
    global THOROUGH
    THOROUGH = tier == "thorough"
    depth = 6 if tier == "quick" else 7
    res = explorer.explore(make_world, depth)
    cov = {"states": res.states, "transitions": res.transitions,
           "traces_validated_against_impl": res.transitions,
           "samples": res.samples, "exhaustive": res.complete, "depth": res.max_depth,
           "level_sizes": res.level_sizes, "pruned_violating_transitions": res.pruned,
           "rule": f"all histories up to depth {depth} over <= {MAX_CTX} context objects (no_grad/retain_grads, "
                   f"constructed early/entered late/re-used, exit normal or by exception) and <= {MAX_TEN} tensors "
                   "(leaf f64/f32/i64, tanh, mul, unbind, detach, toggle, retain_grad, backward, backward refused for a mis-shaped gradient); states merged on "
                   "model state + observable library state; each transition is a full replay on fresh objects "
                   "compared with the stack-machine model after the last event"}
    with harness.quiet():
        lv, ln = leaf_lattice()
        fv, fn_ = flag_lattice()
    res.violations.extend(lv); res.violations.extend(fv)
    from mc import engine, catalog_tensor as ct_, catalog_nn as cn_
    rej = engine.run_cases(ct_.cases("quick", "forward") + cn_.cases("quick", "forward"), judge_reject)
    for x in rej["violations"]:
        x["case"] = {"reject_case": x["case"]}
    res.violations.extend(rej["violations"])
    cov["rejected_call_cases"] = {"evaluations": rej["evaluations"], "rejected": rej["outcomes"].get("rejected", 0)}
    cov["flag_propagation_cases"] = fn_
    cov["leaf_constructor_cases"] = ln
    cov["rule"] += (f"; plus {ln} leaf-construction cases (every constructor x data kind x dtype argument x grad mode with requires_grad=True) "
                    f"and {fn_} flag-propagation cases (every op / layer / loss of both catalogues x every subset of operand flags x grad mode); "
                    f"{rej['outcomes'].get('rejected', 0)} rejected calls of the forward lattices, each issued plain / inside no_grad / inside retain_grads: modes unchanged after the raise")
    if tier == "thorough":
        audit = explorer.explore(make_world, 5, merge=False)
        merged5 = explorer.explore(make_world, 5)
        cov["audit_unmerged_depth5"] = {"states": audit.states, "transitions": audit.transitions,
                                        "violation_kinds": sorted(audit.violation_counts),
                                        "merged_violation_kinds": sorted(merged5.violation_counts)}
        if sorted(audit.violation_counts) != sorted(merged5.violation_counts):
            res.violations.append({"kind": "harness:merge-unsound", "detail": "audit run without merging found a different violation set", "case": {}})
    return {"level": "model_checking", "violations": res.violations, "coverage": cov,
            "assumptions": ["re-entering a context object while it is active is excluded (unsupported in PyTorch too)",
                            "gradient *values* are decided by C03/C04; here only flags, presence and modes",
                            "leaf constructed with requires_grad=True under no_grad: either flag value accepted (not an operation result)"]}
