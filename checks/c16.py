"""C16 - im2col/col2im variants agree and col2im is the exact adjoint of im2col.

Every geometry of the 2-d lattice: the three im2col variants (both layouts, pad values 0 and -1.5),
the three col2im variants, extract_windows/place_windows; adjointness decided COMPLETELY per geometry
by building the matrices of im2col and col2im on basis inputs (bilinearity => all x, y);
fold(unfold(ones)) == analytically counted window-cover multiplicity.  Inputs are small integers,
so every sum is exact in any order: comparisons are bitwise."""
import itertools
import numpy as np
from mc import harness, engine, lattice, values

def geoms(tier):
    Ls = (1, 2, 3, 4) if tier == "quick" else (1, 2, 3, 4, 5)
    g1 = [(L, k, s, p, d) for L, k, s, p, d in itertools.product(Ls, (1, 2, 3), (1, 2, 3), (0, 1, 2), (1, 2))
          if lattice.conv_out(L, k, s, p, d) >= 1]
    out = []
    if tier == "quick":
        fixed = [(3, 2, 1, 0, 1), (4, 3, 2, 1, 1), (2, 1, 3, 0, 2), (4, 2, 2, 2, 2)]
        for g in g1:
            out.append((g, g))
            for f in fixed:
                out.append((g, f)); out.append((f, g))
    else:
        out = [(a, b) for a in g1 for b in g1]
    return out

def cover_count(H, W, k, s, p, d):
    """how many windows cover each pixel (analytic, per axis product)"""
    def axis(L, k, s, p, d):
        o = lattice.conv_out(L, k, s, p, d); c = np.zeros(L + 2 * p)
        for i in range(o):
            for j in range(k):
                c[i * s + j * d] += 1
        return c[p: p + L]
    return np.outer(axis(H, k[0], s[0], p[0], d[0]), axis(W, k[1], s[1], p[1], d[1]))

def judge(case):
    sg = harness.load(); ct = sg.conv_tools
    (H, kh, sh, ph, dh), (W, kw, sw, pw, dw) = case["ga"], case["gb"]
    N, C = case["nc"]
    spell = case["spell"]
    k, s, p, d = (kh, kw), (sh, sw), (ph, pw), (dh, dw)
    def sp(v):
        return v[0] if (spell == "int" and v[0] == v[1]) else (list(v) if spell == "list" else tuple(v))
    K, S, P, D = sp(k), sp(s), sp(p), sp(d)
    viol = []
    def v(sym, detail): viol.append({"kind": sym, "detail": detail})
    x = values.small_int((N, C, H, W), salt=3)
    L = lattice.conv_out(H, kh, sh, ph, dh) * lattice.conv_out(W, kw, sw, pw, dw)
    held = []      # (name, result array, byte snapshot): a result must not change while later calls run
    def attempt(name, f):
        try:
            r = f()
            if isinstance(r, np.ndarray): held.append((name, r, r.tobytes()))
            return r
        except harness.HarnessError: raise
        except Exception as e:
            v(f"{name}:raised", f"{type(e).__name__}: {str(e)[:80]} (kernel_size spelled {K!r})"); return None
    im = {"im2col": ct.im2col, "im2col_v2": ct.im2col_v2, "im2col_fast": ct.im2col_fast}
    co = {"col2im": ct.col2im, "col2im_v2": ct.col2im_v2, "col2im_fast": ct.col2im_fast}
    # --- im2col variants, both layouts, two pad values
    cols_ref = {}
    for as_unfold in (False, True):
        for pv in (0, -1.5):
            outs = {}
            for name, f in im.items():
                outs[name] = attempt(name, lambda: np.asarray(f(x, K, dilation=D, stride=S, padding=P, pad_value=pv, as_unfold=as_unfold)))
            base = outs["im2col_v2"]
            exp_shape = (N, C * kh * kw, L) if as_unfold else (C * kh * kw, N * L)
            for name, o in outs.items():
                if o is None: continue
                if tuple(o.shape) != exp_shape:
                    v(f"{name}:shape", f"layout as_unfold={as_unfold}: shape {o.shape}, expected {exp_shape}")
                elif base is not None and base.shape == o.shape and not np.array_equal(o, base):
                    v(f"{name}:disagrees-with-im2col_v2", f"as_unfold={as_unfold} pad_value={pv}: max diff {np.max(np.abs(o - base))}")
            if pv == 0: cols_ref[as_unfold] = base
    # --- the same image handed over in Fortran order / as a strided view: every variant must return the same matrices
    if N * C * H * W > 1:
        from mc import gradcheck
        for lname, conv in gradcheck.LAYOUTS:
            xa = conv(x.copy())
            for name, f in im.items():
                o = attempt(name, lambda: np.asarray(f(xa, K, dilation=D, stride=S, padding=P, pad_value=0, as_unfold=True)))
                if o is not None and cols_ref.get(True) is not None and not (o.shape == cols_ref[True].shape and np.array_equal(o, cols_ref[True])):
                    v(f"{name}:layout-dependent", f"image given in {lname} layout: the column matrix differs from the one for the contiguous image")
            wa = attempt("extract_windows", lambda: np.asarray(ct.extract_windows(xa, K, S, P, D)))
            w0 = attempt("extract_windows", lambda: np.asarray(ct.extract_windows(x, K, S, P, D)))
            if wa is not None and w0 is not None and not np.array_equal(wa, w0):
                v("extract_windows:layout-dependent", f"image given in {lname} layout: windows differ")
    # --- extract_windows agrees with the column matrix
    w = attempt("extract_windows", lambda: np.asarray(ct.extract_windows(x, K, S, P, D)))
    if w is not None and cols_ref.get(True) is not None:
        lh, lw = lattice.conv_out(H, kh, sh, ph, dh), lattice.conv_out(W, kw, sw, pw, dw)
        if w.shape != (lh, lw, N, C, kh, kw):
            v("extract_windows:shape", f"{w.shape}")
        else:
            as_cols = np.moveaxis(w.reshape(lh * lw, N, C * kh * kw), 0, 2)
            if not np.array_equal(as_cols, cols_ref[True]):
                v("extract_windows:disagrees-with-im2col", "window view and unfold layout differ")
    # --- col2im variants on both layouts
    for as_unfold in (False, True):
        shape = (N, C * kh * kw, L) if as_unfold else (C * kh * kw, N * L)
        y = values.small_int(shape, salt=5)
        outs = {}
        for name, f in co.items():
            outs[name] = attempt(name, lambda: np.asarray(f(y, (N, C, H, W), K, D, S, P)))
        base = outs["col2im_v2"]
        for name, o in outs.items():
            if o is None: continue
            if tuple(o.shape) != (N, C, H, W):
                v(f"{name}:shape", f"{o.shape}, expected {(N, C, H, W)}")
            elif base is not None and base.shape == o.shape and not np.array_equal(o, base):
                v(f"{name}:disagrees-with-col2im_v2", f"layout as_unfold={as_unfold}: max diff {np.max(np.abs(o - base))}")
        if as_unfold and w is not None:
            lh, lw = lattice.conv_out(H, kh, sh, ph, dh), lattice.conv_out(W, kw, sw, pw, dw)
            wy = np.moveaxis(y, 2, 0).reshape(lh, lw, N, C, kh, kw)
            pw_ = attempt("place_windows", lambda: np.asarray(ct.place_windows(wy, (N, C, H, W), K, S, P, D)))
            if pw_ is not None and base is not None and not (pw_.shape == base.shape and np.array_equal(pw_, base)):
                v("place_windows:disagrees-with-col2im", f"shape {pw_.shape}")
    # --- adjointness, complete: matrix of im2col on basis images == transpose of matrix of col2im on basis columns
    if case.get("adjoint"):
        nin, ncol = N * C * H * W, N * C * kh * kw * L
        for (iname, f), (cname, g) in zip(im.items(), co.items()):
            for as_unfold in (True, False):
                shape = (N, C * kh * kw, L) if as_unfold else (C * kh * kw, N * L)
                try:
                    A = np.zeros((ncol, nin)); B = np.zeros((nin, ncol))
                    for j in range(nin):
                        e = np.zeros(nin); e[j] = 1.0
                        A[:, j] = np.asarray(f(e.reshape(N, C, H, W), K, dilation=D, stride=S, padding=P, pad_value=0, as_unfold=as_unfold)).reshape(-1)
                    for j in range(ncol):
                        e = np.zeros(ncol); e[j] = 1.0
                        B[:, j] = np.asarray(g(e.reshape(shape), (N, C, H, W), K, D, S, P)).reshape(-1)
                except Exception as ex:
                    v(f"{iname}/{cname}:raised", f"{type(ex).__name__}: {str(ex)[:80]}"); continue
                if not np.array_equal(B, A.T):
                    v(f"{cname}:not-adjoint-of-{iname}", f"layout as_unfold={as_unfold}: {int(np.sum(B != A.T))} matrix entries differ")
    # --- fold(unfold(ones)) = cover multiplicity
    ones = np.ones((N, C, H, W))
    for (iname, f), (cname, g) in zip(im.items(), co.items()):
        try:
            r = np.asarray(g(np.asarray(f(ones, K, dilation=D, stride=S, padding=P, pad_value=0, as_unfold=True)), (N, C, H, W), K, D, S, P))
        except Exception:
            continue
        exp = np.broadcast_to(cover_count(H, W, k, s, p, d), (N, C, H, W))
        if r.shape != exp.shape or not np.array_equal(r, exp):
            v(f"{cname}:fold-unfold-multiplicity", f"fold(unfold(1)) != number of windows covering each pixel")
    for name, r, snap in held:
        if r.tobytes() != snap:
            v(f"{name}:result-modified-by-later-call", "an array returned earlier changed while later calls of the same geometry ran (results share storage)"); break
    return {"nontrivial": L >= 1 and (H * W > 1 or kh * kw > 1), "outcome": "ok", "violations": viol}

def all_cases(tier):
    out = []
    spells = ["tuple", "int", "list"]
    for n, (ga, gb) in enumerate(geoms(tier)):
        small = ga[0] * gb[0] <= 12
        out.append({"ga": list(ga), "gb": list(gb), "nc": [1, 1], "spell": spells[n % 3], "adjoint": small or tier != "quick"})
        if n % 4 == 0:
            out.append({"ga": list(ga), "gb": list(gb), "nc": [2, 2], "spell": spells[(n + 1) % 3], "adjoint": ga[0] * gb[0] <= 6})
    # extents around the limits of narrow integer types (index arithmetic in 8 / 16 bits): one long axis, one short axis
    m = 0
    for L in (127, 128, 255, 256, 257) + ((65535, 65536) if tier != "quick" else ()):
        for (k, p) in ((3, 1), (2, 2), (1, 3)):
            if L > 1000 and (k, p) != (3, 1): continue
            long_, short = (L, k, 1, p, 1), (2, 2, 1, 1, 1)
            for ga, gb in ((long_, short), (short, long_)):
                m += 1
                out.append({"ga": list(ga), "gb": list(gb), "nc": [1, 1] if m % 3 else [2, 2], "spell": spells[m % 3], "adjoint": False})
    return out

def replay(case):
    with harness.quiet():
        return judge(case)["violations"]

def run(tier, seed):
    cases = all_cases(tier)
    r = engine.run_cases(cases, judge)
    cov = {"evaluations": r["evaluations"], "distinct_nontrivial": r["distinct_nontrivial"],
           "rule": "2-d geometry lattice (per axis L x k{1,2,3} x s{1,2,3} x p{0,1,2} x d{1,2} with >= 1 window; %s) x (N,C) in "
                   "{(1,1),(2,2)} x int/tuple/list spellings: 3 im2col variants x 2 layouts x pad values {0,-1.5} bitwise equal, "
                   "extract_windows, 3 col2im variants x 2 layouts bitwise equal, place_windows; adjointness by full operator "
                   "matrices on basis inputs (%d geometries); fold(unfold(1)) == window-cover multiplicity; "
                   "plus extents 127..257 (thorough: 65535, 65536) on one axis - index arithmetic at the limits of narrow integer types; "
                   "non-trivial = more than one pixel or kernel element"
                   % ("axes tied or one axis fixed" if tier == "quick" else "full product of both axes", sum(1 for c in cases if c["adjoint"])),
           "samples": r["samples"], "exhaustive": True, "outcomes": r["outcomes"]}
    return {"level": "exploration", "violations": r["violations"], "coverage": cov,
            "assumptions": ["small-integer data make all sums exact, so 'identical' is checked bitwise",
                            "bilinearity: equality of the operator matrices decides <im2col(x),y> = <x,col2im(y)> for all x, y"]}
