"""C11 - forward and backward never modify operands, targets or the caller's gradient.

Every case of the tensor and nn catalogues, with the operands handed over (a) as separate arrays,
(b) as strided views of one shared arena with guard cells, (c) - for two same-shaped operands - as
overlapping views of each other (x and its reverse); byte snapshots of the whole arena, of a
bystander tensor (data and .grad) and of the caller's upstream gradient before forward, after
forward and after backward; the op is run twice for bit-identity; clone()/detach() independence."""
import numpy as np
from mc import harness, engine, catalog_tensor as ct, catalog_nn as cn, values, lattice

def _family(case):
    return cn if "form" in case else ct

def _layout(arrays, mode):
    """-> (operand ndarrays living in `arena`, arena or None)"""
    if mode == "separate":
        return [np.array(a, copy=True) for a in arrays], None
    fl = [i for i, a in enumerate(arrays) if a.dtype.kind == "f"]
    if mode == "overlap":
        # operand 1 is the reversed view of operand 0's memory (same shape required)
        base = np.array(arrays[0], copy=True)
        ops = [np.array(a, copy=True) for a in arrays]
        ops[0] = base
        ops[1] = base.reshape(-1)[::-1].reshape(base.shape) if base.ndim else base
        return ops, base
    # arena: every float operand is a stride-2 view, separated by guard cells
    total = sum(2 * a.size + 3 for a in (arrays[i] for i in fl)) + 3
    arena = np.full(total, 777.25, dtype=arrays[fl[0]].dtype if fl else np.float64)
    ops, pos = [], 3
    for i, a in enumerate(arrays):
        if i not in fl:
            ops.append(np.array(a, copy=True)); continue
        view = arena[pos: pos + 2 * a.size: 2]
        view[...] = a.reshape(-1)
        ops.append(view.reshape(a.shape) if a.size else np.array(a, copy=True))
        pos += 2 * a.size + 3
    return ops, arena

def judge(case):
    sg = harness.load()
    fam = _family(case)
    name = case["op"] + ("" if case.get("form", "fn") == "fn" else ":" + case["form"])
    viol = []
    def v(sym, detail):
        k = f"{name}:{sym}"
        if all(x["kind"] != k for x in viol): viol.append({"kind": k, "detail": detail})
    base_arrays = fam.arrays_for(case)
    diff = cn.diff_idx(case, base_arrays) if fam is cn else list(range(len(base_arrays)))
    rg = [i in diff for i in range(len(base_arrays))]
    # batch-norm running statistics in training mode are documented in-place updates
    whitelisted = set()
    if case["op"] == "batch_norm" and case["args"]["stats"] and case["args"]["training"]:
        whitelisted = {len(base_arrays) - 2, len(base_arrays) - 1}
    modes = ["separate", "arena"]
    if len(base_arrays) >= 2 and base_arrays[0].shape == base_arrays[1].shape and base_arrays[0].ndim >= 1 and base_arrays[1].dtype.kind == "f" and not whitelisted:
        modes.append("overlap")
    accepted = False
    for mode in modes:
        ops, arena = _layout(base_arrays, mode)
        snap_ops = [o.tobytes() for o in ops]
        snap_arena = None if arena is None else arena.tobytes()
        by = sg.Tensor(np.array([3.5, -1.25]), requires_grad=True)
        (by * 2.0).backward(sg.Tensor(np.array([1.0, 1.0])))
        by_snap = (np.asarray(by.data).tobytes(), np.asarray(by.grad.data).tobytes())
        cn.COPY = False
        try:
            try:
                out, ts = fam.run_lib(case, ops, rg, copy=False) if fam is ct else fam.run_lib(case, ops, rg)
            except harness.HarnessError:
                raise
            except Exception:
                continue
            finally:
                cn.COPY = True
            accepted = True
            meta0 = [(tuple(np.shape(o)), str(np.asarray(o).dtype)) for o in ops]     # what the caller handed over
            def compare(stage):
                for i, t in enumerate(ts):
                    if i in whitelisted: continue
                    if (tuple(t.shape), str(t.dtype)) != meta0[i]:
                        v(f"operand-reshaped-by-{stage}", f"[{mode}] operand {i} was {meta0[i]} before the call and is {(tuple(t.shape), str(t.dtype))} after {stage}")
                for i, (o, s0) in enumerate(zip(ops, snap_ops)):
                    if i in whitelisted: continue
                    if o.tobytes() != s0:
                        v(f"operand-modified-by-{stage}", f"[{mode}] operand {i} data changed during {stage}")
                if arena is not None and not whitelisted and arena.tobytes() != snap_arena:
                    v(f"memory-around-operands-modified-by-{stage}", f"[{mode}] the array the operands are views of changed during {stage}")
                if (np.asarray(by.data).tobytes(), np.asarray(by.grad.data).tobytes()) != by_snap:
                    v(f"bystander-modified-by-{stage}", f"[{mode}] a tensor outside the graph changed during {stage}")
            compare("forward")
            first = np.asarray(out.data).copy()
            if out.requires_grad:
                g = sg.Tensor(np.asarray(values.dense_g(out.shape), dtype=out.dtype if out.dtype.kind == "f" else np.float64))
                gs = np.asarray(g.data).tobytes()
                try:
                    out.backward(g)
                except Exception:
                    pass
                compare("backward")
                if np.asarray(g.data).tobytes() != gs:
                    v("caller-gradient-modified", f"[{mode}] the upstream gradient tensor supplied by the caller changed during backward")
                if not np.array_equal(np.asarray(out.data), first, equal_nan=True):
                    v("result-modified-by-backward", f"[{mode}] the result's data changed during backward")
                # an upstream gradient of the OTHER floating dtype (a float64 seed for a float32 result and vice versa) is the
                # caller's tensor just the same: neither its values nor its dtype may change
                if out.dtype.kind == "f" and mode == "separate":
                    other = np.float32 if out.dtype == np.float64 else np.float64
                    try:
                        cn.COPY = False
                        o2, _ = fam.run_lib(case, ops, rg, copy=False) if fam is ct else fam.run_lib(case, ops, rg)
                    finally:
                        cn.COPY = True
                    if o2.requires_grad:
                        g2 = sg.Tensor(np.asarray(values.dense_g(o2.shape), dtype=other))
                        s2 = (np.asarray(g2.data).tobytes(), str(g2.dtype))
                        try: o2.backward(g2)
                        except Exception: pass
                        if (np.asarray(g2.data).tobytes(), str(g2.dtype)) != s2:
                            v("caller-gradient-modified", f"[{mode}] an upstream gradient of dtype {np.dtype(other).name} for a {o2.dtype} result was changed by backward (now {g2.dtype})")
            # repeat on unchanged operands: bit-identical
            cn.COPY = False
            try:
                if case["op"] == "batch_norm" and whitelisted:
                    pass
                else:
                    out2, _ = fam.run_lib(case, ops, rg, copy=False) if fam is ct else fam.run_lib(case, ops, rg)
                    if np.asarray(out2.data).tobytes() != first.tobytes():
                        v("not-repeatable", f"[{mode}] repeating the operation on unchanged operands gave different bits")
                    out3, _ = fam.run_lib(case, ops, rg, copy=False) if fam is ct else fam.run_lib(case, ops, rg)
                    if out3.requires_grad:
                        try: out3.backward(sg.Tensor(np.asarray(values.dense_g(out3.shape), dtype=out3.dtype if out3.dtype.kind == "f" else np.float64)))
                        except Exception: pass
                    for nm, o in (("first", out), ("second", out2)):
                        if not np.array_equal(np.asarray(o.data), first, equal_nan=True):
                            v("result-modified-by-later-call", f"[{mode}] the {nm} result changed while the same operation was applied again (results share storage)")
            finally:
                cn.COPY = True
        finally:
            cn.COPY = True
    if accepted and not whitelisted and case.get("form", "fn") == "fn" and case["op"] != "dropout":
        _outside_graph(sg, fam, case, base_arrays, diff, v)
    if accepted and not whitelisted and case["op"] != "dropout":
        _interior_operands(sg, fam, case, base_arrays, diff, v)
    return {"nontrivial": accepted, "outcome": "accepted" if accepted else "rejected", "violations": viol}

def _outside_graph(sg, fam, case, arrays, diff, v):
    """the operation applied with gradient tracking off to operands that carry gradients (leaves and retained interior nodes);
    its result is then used as a constant in ANOTHER graph that is back-propagated: the operands are outside that graph, their
    gradients must stay byte-identical"""
    diff = [k for k in diff if np.asarray(arrays[k]).dtype.kind == "f"]
    if not diff: return
    apply = (lambda ts: ct.OPS[case["op"]].lib(sg, ts, case.get("args") or {})) if fam is ct else (lambda ts: cn.run_lib(case, arrays, None, ts_override=ts)[0])
    try:
        L = [sg.Tensor(np.array(a, copy=True), requires_grad=(i in diff)) for i, a in enumerate(arrays)]
        pre = [(t * 1.0) if i in diff else t for i, t in enumerate(L)]
        for k in diff: pre[k].retain_grad()
        tot = None
        for k in diff:
            tot = pre[k].sum() if tot is None else tot + pre[k].sum()
        tot.backward()
        snap = {k: (np.asarray(L[k].grad.data).tobytes(), np.asarray(pre[k].grad.data).tobytes()) for k in diff}
        with sg.no_grad():
            t = apply(pre)
        if np.asarray(t.data).dtype.kind != "f" or t.requires_grad:
            return          # flags of untracked results are C07's subject
        w = sg.Tensor(np.ones(t.shape, dtype=np.asarray(t.data).dtype), requires_grad=True)
        (w * t).sum().backward()
    except harness.HarnessError:
        raise
    except Exception:
        return
    for k in diff:
        now = (None if L[k].grad is None else np.asarray(L[k].grad.data).tobytes(), None if pre[k].grad is None else np.asarray(pre[k].grad.data).tobytes())
        if now != snap[k]:
            v("gradient-outside-graph-modified", f"operand {k}: the operation ran under no_grad and its result was used as a constant in another graph; "
              f"backward of that graph changed the {'leaf' if now[0] != snap[k][0] else 'retained interior'} gradient of the operand")
            break

def _interior_operands(sg, fam, case, arrays, diff, v):
    """the operands are not leaves but RESULTS of earlier operations of the same graph (the pre-activation of an affine layer, a
    reshaped or scaled tensor): they are operands like any other - the call may not overwrite them, neither in its forward nor in
    its backward, whatever produced them.  Producers are chosen so that the interior tensor holds exactly the lattice values:
    x * 1.0, x + 0.0, x.reshape(same shape), linear(x, identity) for matrices, conv1d / conv2d with an identity 1x1 kernel."""
    F = sg.nn.functional
    fl = [k for k in range(len(arrays)) if np.asarray(arrays[k]).dtype.kind == "f"]
    if not fl: return
    apply = (lambda ts: ct.OPS[case["op"]].lib(sg, ts, case.get("args") or {})) if fam is ct else (lambda ts: cn.run_lib(case, arrays, None, ts_override=ts)[0])
    def eye(n, dt, extra=()): return sg.Tensor(np.eye(n, dtype=dt).reshape((n, n) + extra))
    producers = {"mul_one": lambda t: t * 1.0, "add_zero": lambda t: t + 0.0, "reshape": lambda t: t.reshape(t.shape),
                 "affine_identity": lambda t: (F.linear(t, eye(t.shape[1], t.dtype)) if t.ndim == 2 else
                                               F.conv1d(t, eye(t.shape[1], t.dtype, (1,))) if t.ndim == 3 else
                                               F.conv2d(t, eye(t.shape[1], t.dtype, (1, 1))) if t.ndim == 4 else None)}
    for pname, prod in producers.items():
        try:
            L = [sg.Tensor(np.array(a, copy=True), requires_grad=(i in fl)) for i, a in enumerate(arrays)]
            pre = list(L); made = []
            for k in fl:
                p = prod(L[k])
                if p is None or not p.requires_grad or np.asarray(p.data).tobytes() != np.asarray(L[k].data).tobytes(): continue
                pre[k] = p; made.append(k)
            if not made: continue
            snap = {k: np.asarray(pre[k].data).tobytes() for k in made}
            out = apply(pre)
            when = "forward"
            bad = [k for k in made if np.asarray(pre[k].data).tobytes() != snap[k]]
            if not bad and getattr(out, "requires_grad", False):
                out.backward(sg.Tensor(np.ones(out.shape, dtype=np.asarray(out.data).dtype)))
                when = "backward"
                bad = [k for k in made if np.asarray(pre[k].data).tobytes() != snap[k]]
        except harness.HarnessError:
            raise
        except Exception:
            continue
        if bad:
            v("interior-operand-modified-by-" + when, f"operand {bad[0]} was the result of {pname} (same values as the leaf case): its data changed during the call's {when}")
            return

def clone_detach_cases():
    out = [{"op": "special:" + k, "shapes": [list(s)], "args": {"rg": r}} for k in ("clone", "detach")
           for s in lattice.shapes(3) for r in (False, True)]
    # sources whose data is a VIEW of another tensor's storage (row index, reshape, flatten, unsqueeze, transpose, slice)
    for k in ("clone", "detach"):
        for view in ("row", "reshape", "flatten", "unsqueeze", "transpose", "slice", "step_slice"):
            for r in (False, True):
                out.append({"op": "special:" + k, "shapes": [[3, 4]], "args": {"rg": r, "view": view}})
    return out

def judge_special(case):
    sg = harness.load()
    k = case["op"].split(":")[1]; s = tuple(case["shapes"][0])
    x = values.generic(s); src = sg.Tensor(x.copy(), requires_grad=case["args"]["rg"])
    view = case["args"].get("view")
    if view:
        base = src
        src = {"row": lambda: base[1], "reshape": lambda: base.reshape((4, 3)), "flatten": lambda: base.flatten(), "unsqueeze": lambda: base.unsqueeze(0),
               "transpose": lambda: base.transpose(0, 1), "slice": lambda: base[0:2], "step_slice": lambda: base[:, ::2]}[view]()
        x = np.array(np.asarray(src.data), copy=True)
    r = src.clone() if k == "clone" else src.detach()
    viol = []
    if np.shares_memory(np.asarray(r.data), np.asarray(src.data)):
        viol.append({"kind": f"{k}:shares-storage", "detail": f"{k}() of shape {s} shares memory with its source"})
    else:
        d = np.asarray(r.data)
        if d.size and d.flags.writeable:
            d.reshape(-1)[0] += 1.0
            if not np.array_equal(np.asarray(src.data), x):
                viol.append({"kind": f"{k}:shares-storage", "detail": "writing to the copy changed the source"})
    if not np.array_equal(np.asarray(src.data), x):
        viol.append({"kind": f"{k}:source-modified", "detail": "source changed"})
    if view and np.shares_memory(np.asarray(r.data), np.asarray(base.data)):
        viol.append({"kind": f"{k}:shares-storage", "detail": f"{k}() of a {view} view shares memory with the tensor the view was taken from"})
    if k == "detach" and r.requires_grad:
        viol.append({"kind": "detach:requires-grad", "detail": "detached tensor requires grad"})
    return {"nontrivial": True, "outcome": "ok", "violations": viol}

def augassign_cases():
    out = []
    for o in ("+=", "-=", "*=", "/=", "**=", "@="):
        for rg in (False, True):
            for kind in ("float", "int", "np_scalar", "ndarray", "tensor"):
                for dt in ("float32", "float64"):
                    if o == "@=" and kind != "tensor": continue
                    out.append({"op": "special:augassign", "shapes": [[2, 2]], "args": {"o": o, "rg": rg, "kind": kind, "dtype": dt}})
    return out

def judge_augassign(case):
    """Python's augmented assignments on a Tensor: documented in-place changes of tensor data are the optimizer step, the
    initialisers, batch-norm statistics and gradient zeroing - `t += v` is none of them, so the object that was called t (which
    an earlier recorded operation may hold as an operand) keeps its data; a graph that used it still differentiates correctly"""
    sg = harness.load()
    A = case["args"]; dt = np.dtype(A["dtype"])
    x = np.array([[1.5, -0.5], [0.75, 2.0]], dtype=dt)
    t = sg.Tensor(x.copy(), requires_grad=A["rg"])
    alias = t; snap = np.asarray(alias.data).tobytes()
    w = sg.Tensor(np.array([[0.5, 1.0], [-2.0, 3.0]], dtype=dt), requires_grad=True)
    y = w * alias
    v_ = {"float": 0.5, "int": 2, "np_scalar": dt.type(0.5), "ndarray": np.full((2, 2), 0.5, dtype=dt),
          "tensor": sg.Tensor(np.full((2, 2), 0.5, dtype=dt))}[A["kind"]]
    viol = []
    try:
        o = A["o"]
        if o == "+=": t += v_
        elif o == "-=": t -= v_
        elif o == "*=": t *= v_
        elif o == "/=": t /= v_
        elif o == "**=": t **= (2 if A["kind"] in ("int", "float") else v_)
        else: t @= v_
    except harness.HarnessError:
        raise
    except Exception:
        pass            # an augmented form that is not supported may raise; nothing may have changed either way
    if np.asarray(alias.data).tobytes() != snap:
        viol.append({"kind": "augassign:operand-modified-in-place", "detail": f"t {A['o']} <{A['kind']}> ({A['dtype']}, requires_grad={A['rg']}) changed the data of "
                     "the tensor object that was bound to t (still referenced elsewhere) in place"})
    g = np.array([[1.0, -1.0], [0.5, 2.0]], dtype=dt)
    try:
        y.backward(sg.Tensor(g.copy()))
        if not np.allclose(np.asarray(w.grad.data, dtype=np.float64), g.astype(np.float64) * x.astype(np.float64), rtol=1e-6, atol=0):
            viol.append({"kind": "augassign:earlier-graph-disturbed", "detail": f"y = w * t recorded before `t {A['o']} ...`: w.grad is {np.asarray(w.grad.data).ravel()}, "
                         f"expected g * (old t) = {(g * x).ravel()}"})
    except harness.HarnessError:
        raise
    except Exception as e:
        viol.append({"kind": "augassign:earlier-graph-disturbed", "detail": f"backward of a graph recorded before the augmented assignment raised {type(e).__name__}: {str(e)[:80]}"})
    return {"nontrivial": True, "outcome": "ok", "violations": viol}

def wrap_cases():
    return [{"op": "special:wrap", "shapes": [[2]], "args": {"how": how, "had_grad": hg, "then": then}}
            for how in ("Parameter", "Tensor") for hg in (False, True) for then in ("backward", "backward_twice", "zero_")]

def judge_wrap(case):
    """a tensor w0 the caller keeps is wrapped (nn.Parameter(w0) / Tensor(w0)); a graph over the WRAPPER is differentiated, or the
    wrapper's gradient is reset: w0 is outside that graph - its gradient stays what it was - and the wrapper, a leaf of its own,
    ends up with exactly the contributions of the calls made on it"""
    sg = harness.load()
    A = case["args"]
    w0 = sg.Tensor(np.array([1.5, -0.5]), requires_grad=True)
    if A["had_grad"]:
        (w0 * 2.0).backward(sg.Tensor(np.array([1.0, 1.0])))
    snap = None if w0.grad is None else np.asarray(w0.grad.data).tobytes()
    viol = []
    try:
        w = sg.nn.Parameter(w0) if A["how"] == "Parameter" else sg.Tensor(w0)
        if not w.requires_grad: w.requires_grad = True
        if A["then"] == "zero_":
            w.zero_()
            exp = np.zeros(2)
        else:
            n = 2 if A["then"] == "backward_twice" else 1
            for _ in range(n):
                (w * 3.0).backward(sg.Tensor(np.array([1.0, -1.0])))
            exp = n * np.array([3.0, -3.0])
        now = None if w0.grad is None else np.asarray(w0.grad.data).tobytes()
        if now != snap:
            viol.append({"kind": "wrap:source-gradient-changed", "detail": f"w = {A['how']}(w0) (w0 {'with' if A['had_grad'] else 'without'} a gradient), then {A['then']} on w: "
                         f"w0.grad went from {None if snap is None else np.frombuffer(snap)} to {None if now is None else np.frombuffer(now)} although w0 is not part of that graph"})
        got = None if w.grad is None else np.asarray(w.grad.data, dtype=np.float64)
        if got is None or not np.allclose(got, exp):
            viol.append({"kind": "wrap:wrapper-gradient-inherited", "detail": f"w = {A['how']}(w0) (w0 {'with' if A['had_grad'] else 'without'} a gradient), then {A['then']}: "
                         f"w.grad = {got}, the calls made on w contribute {exp}"})
    except harness.HarnessError:
        raise
    except Exception as e:
        viol.append({"kind": "wrap:raised", "detail": f"{type(e).__name__}: {str(e)[:80]}"})
    return {"nontrivial": True, "outcome": "ok", "violations": viol}

def dispatch(case):
    if case["op"] == "special:wrap": return judge_wrap(case)
    if case["op"] == "special:augassign": return judge_augassign(case)
    return judge_special(case) if case["op"].startswith("special:") else judge(case)

def boundary_cases():
    """operands on / beyond the boundary of an operation's domain (exact zeros under sqrt, log, negative and fractional powers,
    zero denominators, probabilities exactly 0 and 1): values and gradients may be infinite or NaN there, which is no licence to
    write into operands, saved results or the caller's gradient ("for all operand values")"""
    out = []
    def add(op, shapes, args=None, pats=None, form=None):
        c = {"op": op, "shapes": [list(s) for s in shapes], "args": args or {}, "pats": pats, "boundary": True}
        if form: c["form"] = form
        out.append(c)
    for s in ((), (3,), (2, 3), (2, 1, 3)):
        for pat in ("nonneg0", "with_zeros", "zeros"):
            add("sqrt", [s], pats=[pat]); add("log", [s], pats=[pat]); add("exp", [s], pats=[pat])
            for n in ct.POW_N: add("pow", [s], {"n": n}, pats=[pat])
            for n in ct.RPOW_N + [0, -1]: add("rpow", [s], {"n": n}, pats=[pat])
            add("rdiv", [s], {"c": 2.5}, pats=[pat]); add("divc", [s], {"c": 0.0}, pats=[pat])
            add("div", [s, s], pats=["generic", pat]); add("div", [s, s], pats=[pat, pat])
            add("max", [s], {"dim": None}, pats=[pat]) if "max" in ct.OPS else None
            for o in ("relu", "selu", "tanh", "sigmoid"): add(o, [s], pats=[pat], form="fn")
            if len(s) >= 1:
                add("softmax", [s], {"dim": -1}, pats=[pat], form="fn"); add("log_softmax", [s], {"dim": 0}, pats=[pat], form="fn")
                add("bce", [s, s], pats=["target01", "target01"], form="fn"); add("bce", [s, s], {"reduction": "mean"}, pats=["target01", "target:0.3"], form="layer")
                add("bce_logits", [s, s], pats=[pat, "target01"], form="fn"); add("mse", [s, s], pats=[pat, pat], form="fn")
    # prediction and target with the same number of elements but different shapes (an (N,1) output against (N,) labels): whether
    # the loss broadcasts, aligns or raises, it must not touch either tensor
    for a, b in (((3, 1), (3,)), ((3,), (3, 1)), ((2, 3), (6,)), ((1, 4), (4, 1)), ((2, 1, 2), (2, 2))):
        for form in ("fn", "layer"):
            args = {} if form == "fn" else {"reduction": "mean"}
            add("mse", [a, b], args, pats=["generic", "generic"], form=form)
            add("bce", [a, b], args, pats=["prob", "target01"], form=form)
            add("bce_logits", [a, b], args, pats=["logits", "target01"], form=form)
    return out

def all_cases(tier):
    return ct.cases(tier, "grad") + cn.cases(tier, "grad") + clone_detach_cases() + boundary_cases() + augassign_cases() + wrap_cases()

def replay(case):
    with harness.quiet():
        return dispatch(case)["violations"]

def run(tier, seed):
    cases = all_cases(tier)
    r = engine.run_cases(cases, dispatch)
    cov = {"evaluations": r["evaluations"], "distinct_nontrivial": r["distinct_nontrivial"],
           "rule": "every case of the tensor-op and nn catalogues (C01/C02 lattices) x operand layouts {separate arrays, strided views of "
                   "one arena with guard cells, overlapping views x / reversed x for same-shaped pairs}: bytes of operands, arena, "
                   "bystander tensor (data and grad), caller's g and result before/after forward and backward; repeat for bit-identity; "
                   "clone()/detach() storage independence over all shapes of rank <= 3; wrapping a kept tensor (nn.Parameter(w0) / Tensor(w0), with and without a gradient on w0) and differentiating over the wrapper leaves w0.grad alone; augmented assignments (t += v ... t @= v, every operand kind) leave the object formerly bound to t and graphs that used it alone; operands on the boundary of the domain (exact zeros under "
                   "sqrt/log/negative and fractional powers, zero denominators, probabilities exactly 0 and 1) where values and gradients may be non-finite; batch-norm running statistics in training mode "
                   "are the only whitelisted change; non-trivial = accepted",
           "samples": r["samples"], "exhaustive": True, "outcomes": r["outcomes"]}
    return {"level": "exploration", "violations": r["violations"], "coverage": cov,
            "assumptions": ["history-dependent aliasing of the caller's gradient is decided in the C04 explorer (shows only at a later backward)"]}
