"""C15 - weight initialisers fill tensors with the documented distribution, in place.

Every initialiser x shape x gain/mode/nonlinearity/slope x dtype x requires_grad, executed under the
controlled random source with the extremal answer vectors (u=0, u=1, u=1/2, z=0, z=+1, z=-1 and mixed
per-element patterns): the recovered bounds / mean / std must equal the documented formulas evaluated
independently (fans and gains from torch.nn.init); identity, shape, dtype and requires_grad kept."""
import itertools, math
import numpy as np
from mc import harness, engine, randsrc, lattice

NONLIN = ["linear", "conv1d", "conv2d", "sigmoid", "tanh", "relu", "leaky_relu", "selu"]

def all_cases(tier):
    out = []
    R = 4 if tier == "quick" else 5
    shapes = [s for s in lattice.shapes(R) if len(s) >= 1]
    if tier == "quick":
        shapes = [s for s in shapes if len(s) <= 3 or (len(s) == 4 and s.count(1) <= 2 and s[0] != s[1])]
    for s in shapes:
        for dt in ("float32", "float64"):
            for rg in (False, True):
                light = not (dt == "float32" and not rg)
                for (a, b) in [(0.0, 1.0), (-2.0, 0.5)]:
                    out.append({"init": "uniform_", "shape": list(s), "dtype": dt, "rg": rg, "args": {"a": a, "b": b}})
                for (m, sd) in [(0.0, 1.0), (1.5, 0.25)]:
                    out.append({"init": "normal_", "shape": list(s), "dtype": dt, "rg": rg, "args": {"mean": m, "std": sd}})
                out.append({"init": "constant_", "shape": list(s), "dtype": dt, "rg": rg, "args": {"val": -2.5}})
                for val in (0.1, -1.0 / 3.0, 16777217):      # not representable in float32: a float64 tensor must hold them to double precision
                    out.append({"init": "constant_", "shape": list(s), "dtype": dt, "rg": rg, "args": {"val": val}})
                out.append({"init": "ones_", "shape": list(s), "dtype": dt, "rg": rg, "args": {}})
                out.append({"init": "zeros_", "shape": list(s), "dtype": dt, "rg": rg, "args": {}})
                if len(s) < 2 or (light and tier == "quick" and len(s) > 3):
                    continue
                for gain in (1.0, 0.5, 5.0 / 3, math.sqrt(2.0)):
                    out.append({"init": "xavier_uniform_", "shape": list(s), "dtype": dt, "rg": rg, "args": {"gain": gain}})
                    out.append({"init": "xavier_normal_", "shape": list(s), "dtype": dt, "rg": rg, "args": {"gain": gain}})
                if light: continue
                for mode in ("fan_in", "fan_out"):
                    for nl in NONLIN:
                        for a in ((0, 0.2, math.sqrt(5.0), -0.5, -3) if (nl == "leaky_relu" or (mode == "fan_in" and dt == "float32")) else (0,)):
                            out.append({"init": "kaiming_uniform_", "shape": list(s), "dtype": dt, "rg": rg, "args": {"a": a, "mode": mode, "nonlinearity": nl}})
                            out.append({"init": "kaiming_normal_", "shape": list(s), "dtype": dt, "rg": rg, "args": {"a": a, "mode": mode, "nonlinearity": nl}})
    # bounds / gains handed over as NumPy float64 scalars (np.sqrt(...) results): the tensor must keep its dtype
    for s in [(3,), (3, 2), (2, 3, 2)]:
        for dt in ("float32", "float64"):
            out.append({"init": "uniform_", "shape": list(s), "dtype": dt, "rg": True, "args": {"a": -0.5, "b": 0.75}, "np_scalars": True})
            out.append({"init": "normal_", "shape": list(s), "dtype": dt, "rg": True, "args": {"mean": 0.5, "std": 0.25}, "np_scalars": True})
            out.append({"init": "constant_", "shape": list(s), "dtype": dt, "rg": True, "args": {"val": 1.5}, "np_scalars": True})
            if len(s) >= 2:
                out.append({"init": "xavier_uniform_", "shape": list(s), "dtype": dt, "rg": True, "args": {"gain": math.sqrt(2.0)}, "np_scalars": True})
                out.append({"init": "xavier_normal_", "shape": list(s), "dtype": dt, "rg": True, "args": {"gain": math.sqrt(2.0)}, "np_scalars": True})
                out.append({"init": "kaiming_uniform_", "shape": list(s), "dtype": dt, "rg": True, "args": {"a": 0.2}, "np_scalars": True})
    # large tensors (a real layer has 10^5 .. 10^6 weights): sizes around and at multiples of 2^16, where a block-wise or chunked
    # fill would change its path - every element is still a function of its own draw
    for s in [(65536,), (65537,), (256, 512), (512, 384), (131073,), (64, 32, 8, 8)]:
        out.append({"init": "uniform_", "shape": list(s), "dtype": "float32", "rg": True, "args": {"a": -2.0, "b": 0.5}})
        out.append({"init": "normal_", "shape": list(s), "dtype": "float32", "rg": True, "args": {"mean": 1.5, "std": 0.25}})
        out.append({"init": "constant_", "shape": list(s), "dtype": "float64", "rg": True, "args": {"val": 0.1}})
        if len(s) >= 2:
            for init in ("xavier_uniform_", "xavier_normal_", "kaiming_uniform_", "kaiming_normal_"):
                out.append({"init": init, "shape": list(s), "dtype": "float32", "rg": False, "args": {}})
    out.append({"init": "Linear", "shape": [256, 512], "dtype": "float32", "rg": True, "args": {"bias": True}})
    out.append({"init": "Conv2d", "shape": [64, 32, 8, 8], "dtype": "float32", "rg": True, "args": {"bias": True}})
    # defaults
    for init in ("uniform_", "normal_", "xavier_uniform_", "xavier_normal_", "kaiming_uniform_", "kaiming_normal_"):
        out.append({"init": init, "shape": [3, 2], "dtype": "float32", "rg": True, "args": {}})
    # layer constructors
    for i, o in itertools.product((1, 2, 3, 4), (1, 2, 3)):
        for bias in (True, False):
            out.append({"init": "Linear", "shape": [o, i], "dtype": "float32", "rg": True, "args": {"bias": bias}})
    for ci, co, k in itertools.product((1, 2, 3), (1, 2), (1, 2, 3)):
        for bias in (True, False):
            out.append({"init": "Conv1d", "shape": [co, ci, k], "dtype": "float32", "rg": True, "args": {"bias": bias}})
            for k2 in (1, 3):
                out.append({"init": "Conv2d", "shape": [co, ci, k, k2], "dtype": "float32", "rg": True, "args": {"bias": bias}})
        # the start distribution depends on the number of weights feeding one output (fan_in), not on how the window is laid out
        # over the input: stride / padding / dilation leave it alone
        for geom in ({"dilation": 2}, {"stride": 2, "padding": 1}, {"dilation": 3, "stride": 2, "padding": 2}):
            out.append({"init": "Conv1d", "shape": [co, ci, k], "dtype": "float32", "rg": True, "args": {"bias": True, "geom": geom}})
        for geom in ({"dilation": 2}, {"dilation": [3, 2]}, {"stride": [2, 1], "padding": [1, 0], "dilation": [1, 2]}):
            out.append({"init": "Conv2d", "shape": [co, ci, k, 3], "dtype": "float32", "rg": True, "args": {"bias": True, "geom": geom}})
    return out

def expected(case):
    """('uniform', lo, hi) | ('normal', mean, std) | ('const', v) from the documented formulas"""
    t = harness.torch(); ti = t.nn.init
    init, A, s = case["init"], case["args"], tuple(case["shape"])
    if init == "uniform_": return ("uniform", A.get("a", 0.0), A.get("b", 1.0))
    if init == "normal_": return ("normal", A.get("mean", 0.0), A.get("std", 1.0))
    if init == "constant_": return ("const", A["val"])
    if init == "ones_": return ("const", 1.0)
    if init == "zeros_": return ("const", 0.0)
    fi, fo = ti._calculate_fan_in_and_fan_out(t.empty(s))
    if init in ("Linear", "Conv1d", "Conv2d"):
        b = 1.0 / math.sqrt(fi); return ("uniform", -b, b)
    if init.startswith("xavier"):
        g = A.get("gain", 1.0)
        if init == "xavier_uniform_":
            a = g * math.sqrt(6.0 / (fi + fo)); return ("uniform", -a, a)
        return ("normal", 0.0, g * math.sqrt(2.0 / (fi + fo)))
    fan = fi if A.get("mode", "fan_in") == "fan_in" else fo
    gain = ti.calculate_gain(A.get("nonlinearity", "leaky_relu"), A.get("a", 0))
    if init == "kaiming_uniform_":
        b = gain * math.sqrt(3.0 / fan); return ("uniform", -b, b)
    return ("normal", 0.0, gain / math.sqrt(fan))

def judge(case):
    sg = harness.load(); nn = sg.nn
    init, A, s = case["init"], case["args"], tuple(case["shape"])
    if case.get("np_scalars"):
        A = {k: (np.float64(v) if isinstance(v, float) else v) for k, v in A.items()}
    dt = np.dtype(case["dtype"]).type
    viol = []
    def v(sym, detail): viol.append({"kind": f"{init}:{sym}", "detail": detail})
    exp = expected(case)
    n = int(np.prod(s))
    tol = 2e-6 if dt == np.float32 else 1e-12
    def run(u=None, z=None):
        """-> list of filled arrays (weight[, bias]) + contract violations"""
        with randsrc.controlled(u=u, z=z, cycle=True) as src:
            if init in ("Linear", "Conv1d", "Conv2d"):
                if init == "Linear": L = nn.Linear(s[1], s[0], bias=A["bias"])
                elif init == "Conv1d": L = nn.Conv1d(s[1], s[0], s[2], bias=A["bias"], **(A.get("geom") or {}))
                else: L = nn.Conv2d(s[1], s[0], (s[2], s[3]), bias=A["bias"], **({k: (tuple(v) if isinstance(v, list) else v) for k, v in (A.get("geom") or {}).items()}))
                outs = [np.asarray(L.weight.data)] + ([np.asarray(L.bias.data)] if A["bias"] else [])
                if tuple(L.weight.shape) != s: v("shape", f"weight shape {L.weight.shape} != {s}")
                if not L.weight.requires_grad: v("requires_grad", "layer weight does not require grad")
                return outs, src
            T = sg.Tensor(np.full(s, 7.0, dtype=dt), requires_grad=case["rg"])
            # the calling context varies from case to case: plain, inside no_grad (the usual idiom for re-initialising parameters),
            # inside retain_grads - an initialiser fills the tensor and leaves its flags alone in all of them
            import contextlib
            ctx = {0: contextlib.nullcontext, 1: sg.no_grad, 2: sg.retain_grads}[int(harness.digest(case), 16) % 3]
            with ctx():
                r = getattr(nn.init, init)(T, **A)
            if r is not T: v("identity", "the initialiser did not return the tensor it was given")
            if tuple(T.shape) != s: v("shape", f"shape changed to {T.shape}")
            if T.dtype != np.dtype(dt): v("dtype", f"dtype changed to {T.dtype}")
            if bool(T.requires_grad) != case["rg"]: v("requires_grad", f"requires_grad changed to {T.requires_grad}")
            return [np.asarray(T.data)], src
    try:
        if exp[0] == "uniform":
            lo, hi = exp[1], exp[2]
            for u, want in ((0.0, lo), (1.0, hi), (0.5, (lo + hi) / 2)):
                outs, src = run(u=u)
                for o in outs:
                    if not np.allclose(o, want, rtol=tol, atol=tol):
                        v("bounds", f"with every uniform draw u={u}: filled with {np.asarray(o).ravel()[0]!r}, documented U({lo:.8g},{hi:.8g}) gives {want:.8g}")
                        break
            if n >= 2 and init not in ("Linear", "Conv1d", "Conv2d"):
                pat = [(k % 2) * 1.0 if k % 3 else 0.25 for k in range(n)]
                outs, src = run(u=pat)
                want = lo + (hi - lo) * np.array(pat).reshape(s)
                if not np.allclose(outs[0], want, rtol=tol, atol=tol):
                    v("elementwise", "elements are not functions of their own uniform draw")
                if src.n_u != n: v("draws", f"{src.n_u} uniform draws for {n} elements")
        elif exp[0] == "normal":
            mean, std = exp[1], exp[2]
            for z, want in ((0.0, mean), (1.0, mean + std), (-1.0, mean - std)):
                outs, src = run(z=z)
                for o in outs:
                    if not np.allclose(o, want, rtol=tol, atol=tol):
                        v("mean" if z == 0 else "std", f"with every normal draw z={z}: filled with {np.asarray(o).ravel()[0]!r}, documented N({mean:.8g},{std:.8g}^2) gives {want:.8g}")
                        break
            if n >= 2:
                pat = [((k % 3) - 1) * 1.0 for k in range(n)]
                outs, src = run(z=pat)
                want = mean + std * np.array(pat).reshape(s)
                if not np.allclose(outs[0], want, rtol=tol, atol=tol):
                    v("elementwise", "elements are not functions of their own normal draw")
                if src.n_z != n: v("draws", f"{src.n_z} normal draws for {n} elements")
        else:
            outs, src = run()
            # a constant is stored exactly: the value rounded ONCE to the tensor's dtype (0.1 in a float64 tensor is float64(0.1))
            want_c = np.dtype(case["dtype"]).type(exp[1])
            if not np.all(np.asarray(outs[0]) == want_c): v("value", f"filled with {outs[0].ravel()[0]!r}, expected {want_c!r} (the value rounded once to {case['dtype']})")
            if src.n_u or src.n_z: v("draws", "a constant filler consumed random draws")
    except harness.HarnessError:
        raise
    except Exception as e:
        v("raised", f"{type(e).__name__}: {str(e)[:100]}")
    # de-duplicate repeated symptoms
    seen, uniq = set(), []
    for x in viol:
        if x["kind"] not in seen: seen.add(x["kind"]); uniq.append(x)
    return {"nontrivial": n >= 2, "outcome": exp[0], "violations": uniq}

def real_generator_check():
    """one run per initialiser with NumPy's real generator: the output must change with the seed and respect the bounds"""
    sg = harness.load(); nn = sg.nn
    bad = []
    for init in ("uniform_", "normal_", "xavier_uniform_", "xavier_normal_", "kaiming_uniform_", "kaiming_normal_"):
        res = []
        for seed in (1, 2):
            sg.manual_seed(seed)
            T = sg.Tensor(np.zeros((4, 5)), requires_grad=True)
            getattr(nn.init, init)(T); res.append(np.asarray(T.data).copy())
        if np.array_equal(res[0], res[1]):
            bad.append({"kind": f"{init}:ignores-seed", "detail": "same values for different seeds", "case": {"init": init, "real_generator": True}})
    return bad

def replay(case):
    if case.get("real_generator"):
        return [b for b in real_generator_check() if b["case"]["init"] == case["init"]]
    with harness.quiet():
        return judge(case)["violations"]

def run(tier, seed):
    cases = all_cases(tier)
    r = engine.run_cases(cases, judge)
    with harness.quiet():
        extra = real_generator_check()
    cov = {"evaluations": r["evaluations"], "distinct_nontrivial": r["distinct_nontrivial"],
           "rule": "initialisers x shapes (rank 1-%d over {1,2,3}; rank >= 2 for fan-based) x gains {1,.5,5/3,sqrt2} x modes x 8 "
                   "nonlinearities x slopes {0,.2,sqrt5,-.5,-3} x dtypes x requires_grad, called plain / inside no_grad / inside retain_grads in rotation; Linear/Conv1d/Conv2d constructors over a size "
                   "lattice; each under the scripted random source with u in {0,1,1/2}, z in {0,+1,-1} and mixed per-element "
                   "patterns, recovering bounds/mean/std exactly; non-trivial = tensor has >= 2 elements" % (4 if tier == "quick" else 5),
           "samples": r["samples"], "exhaustive": True, "outcomes": r["outcomes"]}
    return {"level": "exploration", "violations": r["violations"] + extra, "coverage": cov,
            "assumptions": ["the distribution of NumPy's generator is trusted; what is decided exhaustively is the parameters handed to it "
                            "(bounds, mean, std) and the in-place contract", "fans and gains are taken from torch.nn.init"]}
