"""C17 - backward scales to deep graphs; untracked computations keep no history.

Program shapes x size ladder, each run on the real engine under the interpreter's DEFAULT recursion
limit: backward must complete, match the closed-form gradient, invoke every recorded backward
function exactly once (counting wrapper installed from outside); untracked loops must leave only
O(1) earlier tensors alive (weak references + gc)."""
import sys, gc, weakref
import numpy as np
from mc import harness, engine

SIZES_Q = [10, 100, 500, 999, 1000, 1001, 2000, 5000]
SIZES_T = SIZES_Q + [20000, 50000]

def _count_calls(sg):
    BF = sg.functional.BackwardFunction
    calls = {}
    orig = BF.__call__
    def counting(self):
        calls[id(self)] = calls.get(id(self), 0) + 1
        return orig(self)
    BF.__call__ = counting
    return calls, (BF, orig)

def judge(case):
    sg = harness.load()
    harness.reset_modes(verify=False)
    kind, n = case["kind"], case["n"]
    viol = []
    def v(sym, detail): viol.append({"kind": f"{kind}:{sym}", "detail": detail})
    if sys.getrecursionlimit() > 1000:
        raise harness.HarnessError("recursion limit was raised")
    T = sg.Tensor
    if kind.startswith("untracked_layer_chain") or kind.startswith("frozen_layer_chain"):
        nn = sg.nn
        which = kind.split(":")[1]
        frozen = kind.startswith("frozen_layer_chain")
        sg.manual_seed(3)
        if which == "conv2d": L = nn.Conv2d(1, 1, 3, padding=1); x = T(np.ones((1, 1, 4, 4), dtype=np.float32) * 0.1)
        elif which == "conv1d": L = nn.Conv1d(1, 1, 3, padding=1); x = T(np.ones((1, 1, 6), dtype=np.float32) * 0.1)
        elif which == "linear": L = nn.Linear(3, 3); x = T(np.ones((2, 3), dtype=np.float32) * 0.1)
        elif which == "batchnorm": L = nn.BatchNorm1d(3); x = T(np.arange(6, dtype=np.float32).reshape(2, 3))
        else: L = nn.Sequential(nn.Linear(3, 3), nn.Tanh()); x = T(np.ones((2, 3), dtype=np.float32) * 0.1)
        refs = []
        m = min(n, 2000)
        if frozen:
            # gradient tracking is ON, but every parameter is frozen and the input is plain data: no operand requires grad
            L.freeze()
            if which == "batchnorm": L.eval()
            for i in range(m):
                x = L(x)
                if i < m - 10: refs.append(weakref.ref(x))
            if x.requires_grad: v("history-kept", f"the output of a frozen {which} layer applied to plain data requires grad")
        else:
            with sg.no_grad():
                for i in range(m):
                    x = L(x)                              # trainable parameters, but gradient tracking is off
                    if i < m - 10: refs.append(weakref.ref(x))
        gc.collect()
        alive = sum(1 for r in refs if r() is not None)
        if alive > 4:
            v("history-kept", f"{alive} of {len(refs)} earlier outputs of a {which} layer applied repeatedly "
              f"{'with all parameters frozen (tracking on, plain input)' if frozen else 'under no_grad'} are still alive")
        return {"nontrivial": n >= 100, "outcome": "ok", "violations": viol}
    if kind == "detach_each_step":
        w = T(np.array([0.5, -0.25]), requires_grad=True)
        h = T(np.array([1.0, 2.0]))
        refs = []
        for i in range(n):
            h = (h * w + 1.0).detach()           # history is cut here at every step
            if i < n - 10: refs.append(weakref.ref(h))
        gc.collect()
        alive = sum(1 for r in refs if r() is not None)
        if alive > 4:
            v("history-kept", f"{alive} of {len(refs)} earlier states are still alive although every step ended with detach()")
        calls, (BF, orig) = _count_calls(sg)
        try:
            (h * w).sum().backward()
        finally:
            BF.__call__ = orig
        if len(calls) != 2 or any(c != 1 for c in calls.values()):
            v("backward-walks-detached-history", f"backward after the cut invoked {sum(calls.values())} backward functions, the differentiable graph has 2")
        return {"nontrivial": n >= 100, "outcome": "ok", "violations": viol}
    if kind.startswith("untracked_op_chain"):
        # x = op(x) repeated with tracking off (inside no_grad on a tracked tensor / on plain data): shape-preserving compositions of
        # every view-like and copying op - the result of step i must not keep the tensors of earlier steps alive
        which, how = kind.split(":")[1], kind.split(":")[2]
        steps = {"reshape": lambda t: t.reshape((3, 2)).reshape((2, 3)), "transpose": lambda t: t.transpose(0, 1).transpose(0, 1),
                 "movedim": lambda t: t.movedim(0, 1).movedim(1, 0), "flatten": lambda t: t.flatten().reshape((2, 3)),
                 "unfold": lambda t: t.unfold(1, 3, 1).reshape((2, 3)), "squeeze": lambda t: t.unsqueeze(0).squeeze(0),
                 "index": lambda t: t[:, ::1][0:2], "clone": lambda t: t.clone(), "detach": lambda t: t.detach(),
                 "unbind_stack": lambda t: sg.stack(list(sg.unbind(t, 0)), 0), "concat": lambda t: sg.concat([t[0:1], t[1:2]], 0),
                 "sum_keepdims": lambda t: t + t.sum(dim=1, keepdims=True) * 0.0, "max": lambda t: t - t.max() * 0.0}
        x = T(np.arange(6.0).reshape(2, 3), requires_grad=(how == "no_grad"))
        refs = []; m = min(n, 2000)
        def loop(y):
            for i in range(m):
                y = steps[which](y)
                if i < m - 10: refs.append(weakref.ref(y))
            return y
        if how == "no_grad":
            with sg.no_grad(): y = loop(x * 1.0)
        else:
            y = loop(x)
        gc.collect()
        alive = sum(1 for r in refs if r() is not None)
        if y.requires_grad: v("result-requires-grad", f"untracked {which} result requires grad")
        if alive > 4:
            v("history-kept", f"{alive} of {len(refs)} earlier results of x = {which}(x) repeated with tracking off ({how}) are still alive")
        return {"nontrivial": n >= 100, "outcome": "ok", "violations": viol}
    if kind.startswith("untracked"):
        import contextlib
        kind0 = kind.split("+")[0]
        refs = []
        x = T(np.array([1.0, 2.0]), requires_grad=(kind0 == "untracked_no_grad"))
        varying = "+varying_scalars" in kind
        kind0 = kind0.replace("+varying_scalars", ""); under_retain = "+retain_grads" in kind
        live = []
        def count_live():
            gc.collect()
            return sum(1 for o in gc.get_objects() if isinstance(o, T))
        def loop():
            y = x * 1.0
            for i in range(n):
                if varying: y = y * (1.0 - 1.0 / (i + 2.5)) + 0.001 * i - (i + 1.0) / (i + 3.0)     # a different Python scalar every step
                else: y = y * 1.0001 + 0.1
                if i < n - 10: refs.append(weakref.ref(y))
                if i in (n // 2, n - 1): live.append(count_live())
            return y
        with (sg.retain_grads() if under_retain else contextlib.nullcontext()):
            if kind0 == "untracked_no_grad":
                with sg.no_grad():
                    y = loop()
            else:
                y = loop()
        gc.collect()
        alive = sum(1 for r in refs if r() is not None)
        if y.requires_grad: v("result-requires-grad", "untracked result requires grad")
        if alive > 4:
            v("history-kept", f"{alive} of the {len(refs)} earlier intermediate tensors are still alive after an untracked loop of {n} steps")
        if len(live) == 2 and live[1] - live[0] > 8:
            v("live-tensors-grow", f"the number of live Tensor objects grew from {live[0]} to {live[1]} between step {n // 2} and step {n} of an untracked loop")
        del y
        return {"nontrivial": n >= 100, "outcome": "ok", "violations": viol}
    calls, (BF, orig) = _count_calls(sg)
    try:
        if kind == "chain":
            x = T(np.array([1.0, -2.0]), requires_grad=True)
            y = x
            for _ in range(n): y = y * 1.0001
            root, leaves, nops = y, [(x, np.full(2, 1.0001 ** n))], n
        elif kind == "tree":
            ls = [T(np.array([float(i + 1)]), requires_grad=True) for i in range(n)]
            level, nops = list(ls), 0
            while len(level) > 1:
                nxt = [level[i] + level[i + 1] for i in range(0, len(level) - 1, 2)]
                nops += len(nxt)
                if len(level) % 2: nxt.append(level[-1])
                level = nxt
            root, leaves = level[0], [(l, np.ones(1)) for l in ls[:: max(1, n // 50)]]
        elif kind == "ladder":
            a = T(np.array([1.0, 2.0]), requires_grad=True); b = T(np.array([-1.0, 0.5]), requires_grad=True)
            y0, y1, nops = a, b, 0
            d0, d1 = (1.0, 0.0), (0.0, 1.0)       # (d/da, d/db) by the same recurrence, forward mode
            for _ in range(n):
                y0, y1 = y1, y0 * 0.5 + y1 * 0.5; nops += 3
                d0, d1 = d1, (0.5 * d0[0] + 0.5 * d1[0], 0.5 * d0[1] + 0.5 * d1[1])
            root, leaves = y1, [(a, np.full(2, d1[0])), (b, np.full(2, d1[1]))]
        elif kind == "fanin":
            ls = [T(np.array([float(i)]), requires_grad=True) for i in range(n)]
            root = sg.concat(ls, 0).sum(); nops = 2
            leaves = [(l, np.ones(1)) for l in ls[:: max(1, n // 50)]]
        else:
            raise harness.HarnessError(kind)
        g = T(np.ones(root.shape))
        try:
            root.backward(g)
        except RecursionError as e:
            v("recursion-limit", f"backward raised RecursionError on a {kind} of {n} (graph of {nops} operations) under the default limit {sys.getrecursionlimit()}")
            return {"nontrivial": True, "outcome": "raise", "violations": viol}
        except Exception as e:
            v("backward-raised", f"{type(e).__name__}: {e}")
            return {"nontrivial": True, "outcome": "raise", "violations": viol}
        for l, exp in leaves:
            got = l.grad
            if got is None or not np.allclose(np.asarray(got.data, dtype=np.float64), exp, rtol=1e-9, atol=1e-12):
                v("wrong-gradient", f"leaf gradient {None if got is None else got.data} != closed form {exp}"); break
        if len(calls) != nops or any(c != 1 for c in calls.values()):
            v("not-once-each", f"{len(calls)} distinct backward functions invoked ({sum(calls.values())} calls) for {nops} recorded operations")
        # a second backward costs the same number of invocations (no growth with history)
        calls.clear()
        root.backward(g)
        if len(calls) != nops or any(c != 1 for c in calls.values()):
            v("not-once-each-second-call", f"second backward: {sum(calls.values())} calls for {nops} operations")
    finally:
        BF.__call__ = orig
        root = leaves = ls = level = y = y0 = y1 = None
    return {"nontrivial": n >= 100, "outcome": "ok", "violations": viol}

def _build(sg, kind, n):
    """-> (root, number of recorded operations)"""
    T = sg.Tensor
    if kind == "chain":
        y = T(np.array([1.0, -2.0]), requires_grad=True)
        for _ in range(n): y = y * 1.0001
        return y, n
    if kind == "chain_retain_each":          # every intermediate result asked to keep its gradient
        y = T(np.array([1.0, -2.0]), requires_grad=True)
        for _ in range(n):
            y = y * 1.0001; y.retain_grad()
        return y, n
    if kind == "chain_built_under_retain_grads":   # graph built inside retain_grads, back-propagated outside
        y = T(np.array([1.0, -2.0]), requires_grad=True)
        with sg.retain_grads():
            for _ in range(n): y = y * 1.0001
        return y, n
    if kind == "sum_over_detached_constants":   # thousands of detach()ed targets used directly as operands of one loss
        w = T(np.array([0.5, -0.25]), requires_grad=True)
        base = T(np.array([1.0, 2.0]), requires_grad=True)
        acc = None
        for i in range(n):
            c = (base * float(i % 7)).detach()
            t = w * c
            acc = t if acc is None else acc + t
        return acc, 2 * n - 1
    if kind == "chain_from_many_leaves":     # every step brings in a new leaf (parameters of a deep model)
        y = T(np.array([1.0, -2.0]), requires_grad=True)
        for i in range(n): y = y * T(np.array([1.0001, 0.9999]), requires_grad=True)
        return y, n
    if kind == "ladder":
        y0 = T(np.array([1.0, 2.0]), requires_grad=True); y1 = T(np.array([-1.0, 0.5]), requires_grad=True)
        for _ in range(n): y0, y1 = y1, y0 * 0.5 + y1 * 0.5
        return y1, 3 * n
    if kind == "tree":
        level = [T(np.array([float(i + 1)]), requires_grad=True) for i in range(n)]; nops = 0
        while len(level) > 1:
            nxt = [level[i] + level[i + 1] for i in range(0, len(level) - 1, 2)]; nops += len(nxt)
            if len(level) % 2: nxt.append(level[-1])
            level = nxt
        return level[0], nops
    if kind == "fanin":
        return sg.concat([T(np.array([float(i)]), requires_grad=True) for i in range(n)], 0).sum(), 2
    if kind == "fanin_stack_computed":
        x = T(np.array([1.0]), requires_grad=True)
        return sg.stack([x * float(i + 1) for i in range(n)], 0).sum(), n + 2
    raise harness.HarnessError(kind)

def judge_cost(case):
    """work (python + C call events inside backward, counted with sys.setprofile - no wall clock) must grow linearly:
    the increments of work between sizes n, 2n, 4n may at most double (tolerance 2.5)"""
    sg = harness.load(); harness.reset_modes(verify=False)
    kind, n = case["shape"], case["n"]
    work = []
    for size in (n, 2 * n, 4 * n):
        root, nops = _build(sg, kind, size)
        g = sg.Tensor(np.ones(root.shape))
        cnt = [0]
        def prof(frame, event, arg):
            if event in ("call", "c_call"): cnt[0] += 1
        sys.setprofile(prof)
        try:
            root.backward(g)
        finally:
            sys.setprofile(None)
        work.append(cnt[0]); root = None
    d1, d2 = work[1] - work[0], work[2] - work[1]
    viol = []
    if d1 <= 0 or d2 / d1 > 2.5:
        viol.append({"kind": f"{kind}:superlinear-cost", "detail": f"call events inside backward for sizes {n},{2 * n},{4 * n}: {work}; increment ratio {d2 / max(d1, 1):.2f} (linear = 2.0)"})
    return {"nontrivial": True, "outcome": "ok", "violations": viol}

def judge_cputime(case):
    """work done inside C loops (scanning a list of tensors, say) raises no call events; this second cost measure is the CPU time of
    the calling thread (not wall clock; garbage collector off; minimum of 3 runs) at sizes n and 4n.  Linear cost keeps the cost
    per operation constant, quadratic cost quadruples it.  Reported only when the cost per operation grows by more than 2.5x AND
    the larger run exceeds the linear extrapolation by more than 1 s of CPU AND a second, independent measurement says the same -
    a machine under load inflates CPU time by tens of percent, not by these margins twice in a row."""
    import time, gc
    sg = harness.load(); harness.reset_modes(verify=False)
    kind, n = case["shape"], case["n"]
    def measure(size):
        ts = []
        for rep in range(3):
            root, nops = _build(sg, kind, size)
            g = sg.Tensor(np.ones(root.shape))
            gc.collect(); gc.disable()
            try:
                t0 = time.thread_time(); root.backward(g); ts.append(time.thread_time() - t0)
            finally:
                gc.enable()
            root = None
        return min(ts)
    def superlinear(t1, t4):
        return t4 / 4.0 > 2.5 * max(t1, 1e-9) and t4 - 4.0 * t1 > 1.0
    t1, t4 = measure(n), measure(4 * n)
    best = [t1, t4]
    viol = []
    if superlinear(t1, t4):
        u1, u4 = measure(n), measure(4 * n)
        best += [u1, u4]
        if superlinear(u1, u4):
            viol.append({"kind": f"{kind}:superlinear-cpu-time", "detail": f"CPU seconds inside backward for sizes {n} and {4 * n}: {t1:.3f} and {t4:.3f} "
                         f"(second measurement {u1:.3f} and {u4:.3f}); cost per operation grows {t4 / 4 / max(t1, 1e-9):.1f}x (linear = 1.0, quadratic = 4.0)"})
    return {"nontrivial": True, "outcome": "ok", "violations": viol, "_cpu": best}

def judge_heap(case):
    """the cost of backward depends on the graph, not on what else lives in the process: the same chain is back-propagated in a
    lean process and with 3 million unrelated container objects alive (CPU time of the calling thread, minimum of 3).  Reported
    only when the loaded run costs more than twice the lean one AND at least 0.15 s more, twice in a row (unchanged tree: < 0.01 s more)."""
    import time
    sg = harness.load(); harness.reset_modes(verify=False)
    kind, n = case["shape"], case["n"]
    def measure():
        ts = []
        for rep in range(3):
            root, nops = _build(sg, kind, n)
            g = sg.Tensor(np.ones(root.shape))
            t0 = time.thread_time(); root.backward(g); ts.append(time.thread_time() - t0)
            root = None
        return min(ts)
    def both():
        lean = measure()
        junk = [[] for _ in range(3_000_000)]
        try:
            loaded = measure()
        finally:
            del junk
        return lean, loaded
    bad = lambda lean, loaded: loaded > 2.0 * max(lean, 1e-9) and loaded - lean > 0.15
    lean, loaded = both()
    viol = []
    if bad(lean, loaded):
        lean2, loaded2 = both()
        if not bad(lean2, loaded2): loaded = lean      # not confirmed by an independent second measurement: noise
    if loaded > 2.0 * max(lean, 1e-9) and loaded - lean > 0.15:
        viol.append({"kind": f"{kind}:cost-depends-on-unrelated-heap", "detail": f"CPU seconds inside backward over {n} operations: {lean:.3f} in a lean process, "
                     f"{loaded:.3f} with 3 million unrelated lists alive"})
    return {"nontrivial": True, "outcome": "ok", "violations": viol, "_cpu": (lean, loaded)}

def repeat_cases():
    """one representative case per (op, form) of both gradient catalogues (the one with the most operands)"""
    from mc import catalog_tensor as ct, catalog_nn as cn
    reps = {}
    for fam, cases in (("t", ct.cases("quick", "grad")), ("n", cn.cases("quick", "grad"))):
        for c in cases:
            k = (fam, c["op"], c.get("form", "fn"))
            size = lambda q: (len(q["shapes"]), sum(int(np.prod(sh, dtype=int)) for sh in q["shapes"]))
            if k not in reps or size(c) > size(reps[k]): reps[k] = c       # the case with the most operands, then the most elements
    return [{"kind": "repeat", "fam": k[0], "shape": f"repeat:{k[1]}" + ("" if k[2] == "fn" else ":" + k[2]), "case": c} for k, c in sorted(reps.items())]

REPEATS = 40

def judge_repeat(case):
    """the cost of a backward call is a function of the graph it walks: calling backward again and again over the same recorded
    graph (gradient accumulation, a Jacobian row by row) costs the same every time.  Work = python + C call events inside the
    call (sys.setprofile, no clock); the 40th call may not do more than 1.2x the work of the 2nd."""
    from mc import catalog_tensor as ct, catalog_nn as cn
    sg = harness.load(); harness.reset_modes(verify=False)
    fam = ct if case["fam"] == "t" else cn; c = case["case"]
    arrays = fam.arrays_for(c)
    rg = [a.dtype.kind == "f" for a in arrays]
    if c["op"] == "batch_norm" and (c.get("args") or {}).get("stats"): rg[-2:] = [False, False]
    try:
        with harness.quiet():
            out, ts = fam.run_lib(c, arrays, rg)
    except harness.HarnessError:
        raise
    except Exception:
        return {"nontrivial": False, "outcome": "rejected", "violations": []}
    if not out.requires_grad: return {"nontrivial": False, "outcome": "untracked", "violations": []}
    work = []
    for k in range(REPEATS):
        g = sg.Tensor(np.ones(out.shape, dtype=out.dtype))
        cnt = [0]
        def prof(frame, event, arg):
            if event in ("call", "c_call"): cnt[0] += 1
        sys.setprofile(prof)
        try:
            out.backward(g)
        except Exception as e:
            sys.setprofile(None)
            return {"nontrivial": True, "outcome": "raised", "violations": [{"kind": f"{case['shape']}:repeated-backward-raised",
                    "detail": f"backward call #{k + 1} over the same graph: {type(e).__name__}: {str(e)[:100]}"}] if k else []}
        finally:
            sys.setprofile(None)
        work.append(cnt[0])
    viol = []
    if work[-1] > 1.2 * work[1] + 5:
        viol.append({"kind": f"{case['shape']}:cost-grows-with-earlier-calls", "detail": f"call events inside backward calls #2 and #{REPEATS} over the same graph: {work[1]} and {work[-1]}"})
    return {"nontrivial": True, "outcome": "ok", "violations": viol}

BUDGET_S = 60       # CPU seconds of this process: every case needs a few on the unchanged tree; a backward that has burnt this much is not linear
WALL_S = 1800       # wall-clock backstop for a case that blocks without using the processor

def _dispatch(case):
    k = case["kind"]
    return judge_repeat(case) if k == "repeat" else judge_cost(case) if k == "cost" else judge_cputime(case) if k == "cputime" else judge_heap(case) if k == "heap" else judge(case)

def dispatch(case):
    """every case runs under a budget: an exponential traversal would otherwise never return (and a check that hangs decides
    nothing).  The budget counts processor time of this process (ITIMER_PROF), not wall-clock time: on a machine that is busy with
    other work a linear backward takes longer on the clock but not on the processor (an earlier wall-clock budget raised
    did-not-finish on the unchanged tree with 45 other processes on 16 cores)."""
    import signal
    class _Timeout(Exception): pass
    def on_alarm(signum, frame): raise _Timeout()
    old = signal.signal(signal.SIGALRM, on_alarm); oldp = signal.signal(signal.SIGPROF, on_alarm)
    budget = case.get("budget_s", BUDGET_S)
    signal.alarm(WALL_S); signal.setitimer(signal.ITIMER_PROF, budget)
    try:
        return _dispatch(case)
    except _Timeout:
        sys.setprofile(None)
        import gc; gc.enable()
        return {"nontrivial": True, "outcome": "timeout", "violations": [{"kind": f"{case.get('shape', case['kind'])}:did-not-finish",
                "detail": f"the case did not finish within {budget} s of processor time (it takes seconds when backward is linear in the graph): {case}"}]}
    finally:
        signal.setitimer(signal.ITIMER_PROF, 0); signal.alarm(0); signal.signal(signal.SIGALRM, old); signal.signal(signal.SIGPROF, oldp)

def all_cases(tier):
    sizes = SIZES_Q if tier == "quick" else SIZES_T
    out = []
    for kind in ("chain", "ladder", "tree", "fanin", "untracked_no_grad", "untracked_no_operand_requires_grad",
                 "untracked_no_grad+retain_grads", "untracked_no_operand_requires_grad+retain_grads",
                 "untracked_no_grad+varying_scalars", "untracked_no_operand_requires_grad+varying_scalars", "detach_each_step",
                 "untracked_layer_chain:conv2d", "untracked_layer_chain:conv1d", "untracked_layer_chain:linear", "untracked_layer_chain:batchnorm",
                 "untracked_layer_chain:sequential", "frozen_layer_chain:conv2d", "frozen_layer_chain:conv1d", "frozen_layer_chain:linear",
                 "frozen_layer_chain:batchnorm", "frozen_layer_chain:sequential") + tuple(
                 f"untracked_op_chain:{o}:{h}" for o in ("reshape", "transpose", "movedim", "flatten", "unfold", "squeeze", "index", "clone", "detach",
                                                         "unbind_stack", "concat", "sum_keepdims", "max") for h in ("no_grad", "plain")):
        for n in sizes:
            if kind == "ladder" and n > 20000: continue
            if (kind.startswith("untracked_layer_chain") or kind.startswith("frozen_layer_chain")) and n not in (100, 1000): continue
            if kind.startswith("untracked_op_chain") and n != 1000: continue
            out.append({"kind": kind, "n": n})
    for shape in ("chain", "ladder", "tree", "fanin", "fanin_stack_computed", "chain_retain_each", "chain_built_under_retain_grads", "chain_from_many_leaves", "sum_over_detached_constants"):
        for n in ((100, 250) if tier == "quick" else (100, 250, 600)):
            out.append({"kind": "cost", "shape": shape, "n": n})
    for shape in ("chain", "chain_retain_each", "chain_built_under_retain_grads", "chain_from_many_leaves", "ladder", "sum_over_detached_constants"):
        out.append({"kind": "cputime", "shape": shape, "n": 5000 if shape not in ("ladder", "sum_over_detached_constants") else 2500})
    # graphs of 10^5 nodes: work that is linear per node but touches a container of all nodes (a list shifted on every insertion)
    # stays below the margins at 20 000 nodes and shows at 160 000
    out.append({"kind": "cputime", "shape": "chain_from_many_leaves", "n": 40000, "budget_s": 600})     # ~35 s of CPU on the unchanged tree
    if tier == "thorough":
        # a small quadratic term next to a large linear one: per-operation cost (a + b n) only passes the 2.5x margin between n and 4n
        # once b n > a - for a C-level list shift that is beyond 10^5 nodes (seed c17p: margin reached or not at 40 000 depending on
        # the machine's memory speed)
        out.append({"kind": "cputime", "shape": "chain_from_many_leaves", "n": 100000, "budget_s": 1500})
    for shape, n in (("chain", 1500), ("chain", 6000), ("tree", 3000)):
        out.append({"kind": "heap", "shape": shape, "n": n})
    return out + repeat_cases()

def replay(case):
    with harness.quiet():
        return dispatch(case)["violations"]

def run(tier, seed):
    cases = all_cases(tier)
    r = engine.run_cases(cases, dispatch)
    cov = {"evaluations": r["evaluations"], "distinct_nontrivial": r["distinct_nontrivial"],
           "rule": "program shapes {chain, diamond ladder (each node feeds the next two), binary-tree reduction, wide fan-in, "
                   "untracked loop under no_grad, untracked loop with no operand requiring grad, both also inside retain_grads and with a different Python-scalar operand at every step (global count of live Tensor objects must not grow)} x sizes %s, default recursion "
                   "limit; per case: backward completes, closed-form gradient, every backward function invoked exactly once "
                   "(also on a second backward), <= 4 earlier tensors alive after an untracked loop; non-trivial = size >= 100; "
                   "repeated backward: one representative graph per (op, form) of both gradient catalogues, backward called %d times over it, call events of call #%d <= 1.2x those of call #2"
                   % (SIZES_Q if tier == "quick" else SIZES_T, REPEATS, REPEATS),
           "samples": r["samples"], "exhaustive": True, "outcomes": r["outcomes"],
           "max_depth": max(c.get("n", 0) for c in cases)}
    return {"level": "exploration", "violations": r["violations"], "coverage": cov,
            "assumptions": ["'any depth that fits in memory' is decided up to the largest size of the ladder",
                            "cost is measured in backward-function invocations, not wall-clock"]}
