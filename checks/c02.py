"""C02 - backward of every nn op / layer / loss yields the exact vector-Jacobian product.

Same oracle as C01 (full library Jacobian over every basis upstream gradient vs the 4th-order FD
Jacobian of the library's own float64 forward; bracket test at relu-family kinks and pooling ties)
over the nn lattice: data, weights, biases, gamma/beta and both arguments of the symmetric loss."""
import numpy as np
from mc import harness, engine, catalog_nn as cat, gradcheck

def judge(case):
    arrays = cat.arrays_for(case)
    runner = lambda arrs, rg: cat.run_lib(case, arrs, rg)
    pats = case.get("pats") or []
    kinks = ("ties" in pats) or ("with_zeros" in pats and case["op"] in ("relu", "leaky_relu", "selu"))
    name = case["op"] + ("" if case.get("form", "fn") == "fn" else ":" + case["form"])
    viol, info = gradcheck.check(runner, arrays, cat.diff_idx(case, arrays), name, kinks=kinks)
    if info.get("accepted") and not viol and info.get("rows") is not None and any(a.ndim >= 2 and a.size > 1 for a in arrays):
        def nocopy(arrs, rg):
            cat.COPY = False
            try: return cat.run_lib(case, arrs, rg)
            finally: cat.COPY = True
        viol += gradcheck.check_layouts(nocopy, arrays, cat.diff_idx(case, arrays), name, info["rows"], gradcheck.LAYOUTS)
    if info.get("accepted") and not viol and info.get("rows") is not None and case["op"] not in ("dropout",):
        sg = harness.load()
        viol += gradcheck.check_interleaved(runner, arrays, cat.diff_idx(case, arrays), name, info["rows"],
                                            module_cls=sg.nn.Module if case.get("form", "fn") != "fn" else None)
    if info.get("accepted") and not viol and info.get("rows") is not None:
        viol += gradcheck.check_twice(runner, arrays, cat.diff_idx(case, arrays), name, info["rows"])
        if case.get("form", "fn") == "fn" and case["op"] not in ("dropout", "batch_norm"):
            viol += gradcheck.check_freeze(lambda ts: cat.run_lib(case, arrays, None, ts_override=ts)[0], arrays, cat.diff_idx(case, arrays), name, info["rows"])
    nt = bool(info.get("accepted") and info.get("nonzero"))
    return {"nontrivial": nt, "outcome": "accepted" if info.get("accepted") else "rejected", "violations": viol}

def replay(case):
    with harness.quiet():
        return judge(case)["violations"]

def run(tier, seed):
    cases = cat.cases(tier, "grad")
    r = engine.run_cases(cases, judge)
    cov = {"evaluations": r["evaluations"], "distinct_nontrivial": r["distinct_nontrivial"],
           "rule": "every accepted case of the nn lattice (see C06) with all differentiable inputs requiring grad: backward "
                   "for EVERY basis vector of the output vs 4th-order FD Jacobian of the library's float64 forward (tol 1e-7), "
                   "all-ones and dense g, every non-empty requires_grad subset; relu-family at 0 and pooling ties by the one-sided "
                   "bracket test; dropout under the scripted random source (same mask in forward, FD and backward); "
                   "non-trivial = accepted and Jacobian has a non-zero entry",
           "samples": r["samples"], "exhaustive": True, "outcomes": r["outcomes"]}
    return {"level": "exploration", "violations": r["violations"], "coverage": cov,
            "assumptions": ["operand values are a finite separated alphabet; completeness in g by linearity (checked)",
                            "BCE probabilities are kept in [0.05, 0.95]; BCE targets are not differentiable inputs (only MSE is symmetric)"]}
