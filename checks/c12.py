"""C12 - module trees report each parameter once and propagate mode to all descendants.

Explicit-state BFS over histories of attribute assignment / explicit registration / train / eval /
freeze / unfreeze / zero_grad on three real Modules and two Parameters (shared, re-assigned, set to
None), in lock-step with a registry model; plus every Sequential of <= 3 layers from a non-commuting
alphabet in positional and OrderedDict form."""
import itertools, collections
import numpy as np
from mc import harness, explorer

NAMES = ("x", "y")
NM, NP = 3, 3

class World:
    def __init__(self):
        sg = self.sg = harness.load()
        harness.reset_modes(verify=False)
        nn = sg.nn
        self.mods = [nn.Module() for _ in range(NM)]
        self.pars = [nn.Parameter(sg.Tensor(np.array([1.0, -2.0]), requires_grad=True)),
                     nn.Parameter(sg.Tensor(np.array([0.5, 1.5, -1.0]), requires_grad=True))]
        # a third Parameter OBJECT that re-wraps P0 (Parameter(p) shares p's storage: tied weights) - still a distinct parameter
        self.pars.append(nn.Parameter(self.pars[0]))
        # model: per module ordered registrations name -> (kind, index, first_time, last_time)
        self.reg = [collections.OrderedDict() for _ in range(NM)]
        self.clock = 0
        self.training = [True] * NM
        self.rg = [True] * NP
        self.grad = [None] * NP          # None | "zero" | "val"
        self.attr = [dict() for _ in range(NM)]
        self.plain = sg.Tensor(np.array([9.0, 8.0, 7.0, 6.0, 5.0]))

    def enabled(self):
        ev = []
        for i in range(NM):
            for n in NAMES:
                for j in range(i + 1, NM):
                    ev.append(("set", i, n, "m", j))
                for k in range(NP):
                    ev.append(("set", i, n, "p", k))
                ev.append(("set", i, n, "none", 0))
                ev.append(("set", i, n, "t", 0))      # a plain Tensor (a buffer, a detached copy): an attribute, not a registration
            for j in range(i + 1, NM):
                ev.append(("regm", i, "y", j))
            ev.append(("regp", i, "x", 1))
            for a in ("train", "eval", "freeze", "unfreeze", "zero_grad"):
                ev.append((a, i))
        if any(self.rg):
            ev.append(("give_grads",))
        return ev

    # ---------------------------------------------------------------- model helpers
    def _register(self, i, name, kind, idx):
        self.clock += 1
        r = self.reg[i]
        old = r.get(name)
        if kind in ("none", "t"):
            if old is not None: del r[name]
            return
        if old is not None and old[0] == kind:
            r[name] = (kind, idx, old[2], self.clock)     # same slot, new value
        else:
            if old is not None: del r[name]
            r[name] = (kind, idx, self.clock, self.clock)

    def _reach(self, i, order_key):
        """(modules reachable from i incl. i, parameters once each) in traversal order under an ordering rule"""
        seen_m, seen_p, ms, ps = set(), set(), [], []
        def visit(m):
            ms.append(m)
            entries = sorted(self.reg[m].values(), key=lambda e: e[order_key])
            for kind, idx, _, _ in entries:
                if kind == "p" and idx not in seen_p:
                    seen_p.add(idx); ps.append(idx)
            for kind, idx, _, _ in entries:
                if kind == "m":
                    if idx in seen_m:
                        continue
                    seen_m.add(idx); visit(idx)
        seen_m.add(i); visit(i)
        return ms, ps

    def apply(self, e, check=True):
        with harness.quiet():
            return self._apply(e, check)

    def _apply(self, e, check):
        sg = self.sg; bad = []
        def v(kind, detail): bad.append({"kind": kind, "detail": detail})
        gb = [None if p.grad is None else np.asarray(p.grad.data).tobytes() for p in self.pars]
        touched = set()
        try:
            if e[0] == "set":
                _, i, name, kind, idx = e
                val = self.mods[idx] if kind == "m" else (self.pars[idx] if kind == "p" else (self.plain if kind == "t" else None))
                setattr(self.mods[i], name, val)
                self._register(i, name, kind, idx); self.attr[i][name] = (kind, idx)
            elif e[0] == "regm":
                _, i, name, j = e
                self.mods[i].register_module(name, self.mods[j]); self._register(i, name, "m", j); self.attr[i][name] = ("m", j)
            elif e[0] == "regp":
                _, i, name, k = e
                self.mods[i].register_parameter(name, self.pars[k]); self._register(i, name, "p", k); self.attr[i][name] = ("p", k)
            elif e[0] in ("train", "eval"):
                r = getattr(self.mods[e[1]], e[0])()
                ms, _ = self._reach(e[1], 2)
                for m in ms: self.training[m] = e[0] == "train"
            elif e[0] in ("freeze", "unfreeze"):
                getattr(self.mods[e[1]], e[0])()
                _, ps = self._reach(e[1], 2)
                for k in ps: self.rg[k] = e[0] == "unfreeze"
            elif e[0] == "zero_grad":
                self.mods[e[1]].zero_grad()
                _, ps = self._reach(e[1], 2)
                for k in ps:
                    touched.add(k)
                    if self.rg[k]: self.grad[k] = "zero"
                    elif self.grad[k] is not None: self.grad[k] = "any"     # frozen: clearing or keeping are both fine
            elif e[0] == "give_grads":
                loss = None
                for k, p in enumerate(self.pars):
                    if self.rg[k]:
                        t = (p * p).sum(); loss = t if loss is None else loss + t
                loss.backward()
                for k in range(NP):
                    if self.rg[k]: self.grad[k] = "val"; touched.add(k)
        except Exception as ex:
            v(f"{e[0]}-raised", f"{e}: {type(ex).__name__}: {str(ex)[:80]}")
            return bad
        if not check:
            return bad
        # ---------------------------------------------------------------- compare every observable
        for i, m in enumerate(self.mods):
            got = m.parameters()
            ids = [next((k for k, p in enumerate(self.pars) if p is g), -1) for g in got]
            cands = [self._reach(i, 2)[1], self._reach(i, 3)[1]]
            if sorted(ids) != sorted(cands[0]):
                if len(ids) != len(set(ids)):
                    v("parameter-reported-twice", f"m{i}.parameters() -> {['P%d' % k for k in ids]}, reachable once each {['P%d' % k for k in cands[0]]}")
                elif set(ids) - set(cands[0]):
                    v("stale-registration", f"m{i}.parameters() -> {['P%d' % k for k in ids]} but only {['P%d' % k for k in cands[0]]} are reachable (registrations {dict(self.reg[i])})")
                else:
                    v("parameter-missing", f"m{i}.parameters() -> {['P%d' % k for k in ids]}, reachable {['P%d' % k for k in cands[0]]}")
                continue
            if ids not in cands:
                v("parameter-order", f"m{i}.parameters() order {ids}, registration order {cands}")
            sizes = [self.pars[k].size for k in cands[0]]
            tot = sum(sizes); tr = sum(self.pars[k].size for k in cands[0] if self.rg[k])
            obs = (m.num_params(), m.num_params(trainable=True), m.num_params(non_trainable=True))
            if obs != (tot, tr, tot - tr):
                v("num_params", f"m{i}.num_params (all, trainable, frozen) = {obs}, expected {(tot, tr, tot - tr)}")
            if bool(m.training) != self.training[i]:
                v("training-flag", f"m{i}.training={m.training}, expected {self.training[i]} after {e}")
            subs = m.submodules()
            exp_subs = [idx for kind, idx, _, _ in self.reg[i].values() if kind == "m"]
            got_subs = [next((k for k, mm in enumerate(self.mods) if mm is s), -1) for s in subs]
            if sorted(set(got_subs)) != sorted(set(exp_subs)):
                v("stale-registration" if set(got_subs) - set(exp_subs) else "submodule-missing", f"m{i}.submodules() -> {got_subs}, registered {exp_subs}")
            for name, (kind, idx) in self.attr[i].items():
                cur = getattr(m, name, "<missing>")
                want = self.mods[idx] if kind == "m" else (self.pars[idx] if kind == "p" else (self.plain if kind == "t" else None))
                if cur is not want:
                    v("attribute-value", f"m{i}.{name} is not the object assigned last")
        for k, p in enumerate(self.pars):
            if bool(p.requires_grad) != self.rg[k]:
                v("requires_grad-flag", f"P{k}.requires_grad={p.requires_grad}, expected {self.rg[k]} after {e}")
            g = p.grad
            st = self.grad[k]
            if k not in touched:
                now = None if g is None else np.asarray(g.data).tobytes()
                if now != gb[k]:
                    v("unreachable-parameter-grad-changed", f"P{k}.grad changed by {e} although P{k} is not reachable / not trainable")
            elif st == "zero":
                if g is not None and np.any(np.asarray(g.data) != 0):
                    v("zero_grad-left-gradient", f"P{k}.grad={g.data} after {e}")
            elif st == "val":
                if g is None: v("grad-missing", f"P{k}.grad is None after backward")
        return bad

    def canon(self):
        with harness.quiet():
            reg = tuple(tuple((n,) + tuple(x) for n, x in r.items()) for r in self.reg)
            # order ranks only (not absolute clocks)
            def ranks(r, key):
                return tuple(n for n, _ in sorted(r.items(), key=lambda kv: kv[1][key]))
            regc = tuple((tuple((n, x[0], x[1]) for n, x in r.items()), ranks(r, 2), ranks(r, 3)) for r in self.reg)
            obs = tuple((tuple(id(p) for p in m.parameters()) , bool(m.training), tuple(sorted(m._submodules)) if hasattr(m, "_submodules") else (),
                         tuple(sorted(m._parameters)) if hasattr(m, "_parameters") else ()) for m in self.mods)
            # ids differ between worlds -> map to indices
            obs = tuple((tuple(next((k for k, p in enumerate(self.pars) if p is g), -1) for g in m.parameters()), bool(m.training),
                         tuple(m._submodules) if hasattr(m, "_submodules") else (), tuple(m._parameters) if hasattr(m, "_parameters") else ())
                        for m in self.mods)
            pst = tuple((bool(p.requires_grad), None if p.grad is None else np.asarray(p.grad.data).tobytes()) for p in self.pars)
            return (regc, tuple(self.training), tuple(self.rg), tuple(self.grad), obs, pst,
                    tuple(tuple(sorted(a.items())) for a in self.attr))

def _tup(x):
    return tuple(_tup(y) for y in x) if isinstance(x, (list, tuple)) else x

def make_world():
    return World()

def replay(case):
    if "seq" in case:
        with harness.quiet():
            return sequential_case(case)
    if "tree" in case:
        with harness.quiet():
            return tree_case(dict(case, tree=tuple(map(_tup, case["tree"]))))
    w = World(); out = []
    for e in case["history"]:
        out = w.apply(tuple(e))
    return out

# ----------------------------------------------------------------------------- Sequential
LAYERS = ("double", "inc", "relu", "linear")

def _layer(sg, name, k):
    nn = sg.nn
    if name == "double":
        class D(nn.Module):
            def forward(s, x): return x * 2.0
        return D(), (lambda a: a * 2.0)
    if name == "inc":
        class I(nn.Module):
            def forward(s, x): return x + 1.0
        return I(), (lambda a: a + 1.0)
    if name == "relu":
        return nn.ReLU(), (lambda a: np.maximum(a, 0))
    L = nn.Linear(2, 2)
    W = np.array([[1.0, -2.0], [0.5, 3.0]]) * (k + 1); b = np.array([-0.5, 0.25]) * (k + 1)
    L.weight.data = W.astype(np.float64); L.bias.data = b.astype(np.float64)
    return L, (lambda a: a @ W.T + b)

def sequential_case(case):
    sg = harness.load(); nn = sg.nn
    names, form = case["seq"], case["form"]
    built = [_layer(sg, n, k) for k, n in enumerate(names)]
    if case.get("repeat_first_last") and len(built) >= 2:
        built[-1] = built[0]                       # the SAME module instance registered in two positions
    mods = [b[0] for b in built]
    inner_containers = []
    if form.startswith("nested"):
        # Sequentials inside a Sequential: a container is ONE stage (registered as such, reached by train/eval, extended later)
        if form == "nested_single": inner = nn.Sequential(*mods); S = nn.Sequential(inner); inner_containers = [inner]
        elif form == "nested_first": inner = nn.Sequential(*mods[:-1]); S = nn.Sequential(inner, mods[-1]); inner_containers = [inner]
        elif form == "nested_last": inner = nn.Sequential(*mods[1:]); S = nn.Sequential(mods[0], inner); inner_containers = [inner]
        else:
            h = len(mods) // 2
            i1, i2 = nn.Sequential(*mods[:h]), nn.Sequential(*mods[h:]); S = nn.Sequential(i1, i2); inner_containers = [i1, i2]
    elif form == "positional": S = nn.Sequential(*mods)
    else:
        keys = (["zz", "b", "a_last"] + [f"k{99 - i}" for i in range(40)])[: len(mods)]      # keys whose sorted order differs from insertion order
        S = nn.Sequential(collections.OrderedDict(zip(keys, mods)))
    x = np.array([[1.0, -3.0], [-0.25, 2.0]])
    viol = []
    edit = case.get("edit")
    if edit:
        keys = list(S._submodules.keys()) if hasattr(S, "_submodules") else [str(i) for i in range(len(mods))]
        new = _layer(sg, "inc" if names[0] != "inc" else "double", 7)
        try:
            S(sg.Tensor(x.copy()))                 # run once before editing (a cached chain would be built here at the latest)
            if edit == "replace_first": setattr(S, keys[0], new[0]); built[0] = new
            elif edit == "replace_last_by_register": S.register_module(keys[-1], new[0]); built[-1] = new
            elif edit == "append": S.register_module("appended", new[0]); built.append(new)
        except Exception as ex:
            return [{"kind": "sequential:edit-raised", "detail": f"{type(ex).__name__}: {ex}"}]
        mods = [b[0] for b in built]
    try:
        out = S(sg.Tensor(x.copy()))
    except Exception as ex:
        return [{"kind": "sequential:raised", "detail": f"{type(ex).__name__}: {ex}"}]
    exp = x
    for _, f in built: exp = f(exp)
    if out.shape != exp.shape or not np.allclose(np.asarray(out.data, dtype=np.float64), exp, rtol=1e-6, atol=1e-6):
        viol.append({"kind": "sequential:not-composition-in-order", "detail": f"{names} {form}: got {np.asarray(out.data).ravel()}, expected {exp.ravel()}"})
    expp = []
    for m in mods:
        for p in ([m.weight, m.bias] if hasattr(m, "weight") else []):
            if all(p is not q for q in expp): expp.append(p)
    gotp = S.parameters()
    if len(gotp) != len(expp) or any(a is not b for a, b in zip(gotp, expp)):
        viol.append({"kind": "sequential:parameter-order", "detail": f"{names} {form}: parameters() not in registration order"})
    S.eval()
    if any(m.training for m in mods + inner_containers): viol.append({"kind": "sequential:eval-not-propagated", "detail": f"{names} {form}"})
    S.train()
    if not all(m.training for m in mods + inner_containers): viol.append({"kind": "sequential:train-not-propagated", "detail": f"{names} {form}"})
    if inner_containers:
        subs = S.submodules()
        if len(subs) != (1 if form == "nested_single" else 2) or (form == "nested_single" and subs[0] is not inner_containers[0]):
            viol.append({"kind": "sequential:nested-container-not-one-stage", "detail": f"{names} {form}: the outer Sequential lists {len(subs)} submodules"})
        # a stage appended to the inner container afterwards is part of the outer pipeline too
        extra = _layer(sg, "inc", 9)
        try:
            if form == "nested_first": raise StopIteration        # there the inner container is not the final stage
            inner_containers[-1].register_module("appended", extra[0])
            out2 = S(sg.Tensor(x.copy()))
            if not np.allclose(np.asarray(out2.data, dtype=np.float64), extra[1](exp), rtol=1e-6, atol=1e-6):
                viol.append({"kind": "sequential:not-composition-in-order", "detail": f"{names} {form}: a stage appended to the inner container is not applied by the outer one"})
        except StopIteration:
            pass
        except Exception as ex:
            viol.append({"kind": "sequential:raised", "detail": f"{form}: {type(ex).__name__}: {ex}"})
    return viol

def tree_shapes(nmax):
    """all rooted ORDERED trees with <= nmax nodes, as nested tuples of children"""
    import functools
    @functools.lru_cache(None)
    def forests(n):          # ordered forests with exactly n nodes
        if n == 0: return [()]
        out = []
        for k in range(1, n + 1):                       # size of the first tree
            for first in trees(k):
                for rest in forests(n - k):
                    out.append((first,) + rest)
        return out
    @functools.lru_cache(None)
    def trees(n):
        return [f for f in forests(n - 1)]             # a tree = its forest of children
    return [t for n in range(1, nmax + 1) for t in trees(n)]

def tree_case(case):
    """build the module tree by attribute assignment (children before or after the node's own parameter), then compare parameters() with
    depth-first pre-order (own parameters, then submodules in registration order), num_params and mode propagation"""
    sg = harness.load(); nn = sg.nn
    shape, own_first, post_assign = case["tree"], case["own_first"], case["attach"]
    counter = [0]; expected = []; allmods = []
    pre = case.get("names", "")        # attribute naming convention: plain, private-looking (leading underscore), dunder-free capitals
    def build(children):
        m = nn.Module(); allmods.append(m)
        counter[0] += 1
        p = nn.Parameter(sg.Tensor(np.zeros(counter[0]), requires_grad=True))       # distinct size = identity tag
        subs = []
        has_own = not (case.get("bare_inner") and children)     # bare_inner: containers hold no parameter of their own
        if own_first and has_own:
            setattr(m, pre + "w", p)
        if post_assign == "bottom_up":
            built = [build(tuple(c)) for c in children]
            for i, (cm, cexp) in enumerate(built): setattr(m, f"{pre}c{i}", cm)
            subs = [e for _, e in built]
        else:                                                # attach empty children first, fill them afterwards
            built = []
            for i, c in enumerate(children):
                cm, cexp = build(tuple(c)); setattr(m, f"{pre}c{i}", cm); built.append((cm, cexp))
            subs = [e for _, e in built]
        if not own_first and has_own:
            setattr(m, pre + "w", p)
        return m, ([p.size] if has_own else []) + [x for e in subs for x in e]
    root, exp = build(tuple(shape))
    viol = []
    got = [p.size for p in root.parameters()]
    if got != exp:
        viol.append({"kind": "tree:parameter-order" if sorted(got) == sorted(exp) else "tree:parameters", "detail": f"tree {shape}: parameters() sizes {got}, depth-first registration order {exp}"})
    if root.num_params() != sum(exp): viol.append({"kind": "tree:num_params", "detail": f"{root.num_params()} != {sum(exp)}"})
    root.eval()
    if any(m.training for m in allmods): viol.append({"kind": "tree:eval-not-propagated", "detail": f"tree {shape}"})
    root.train()
    if not all(m.training for m in allmods): viol.append({"kind": "tree:train-not-propagated", "detail": f"tree {shape}"})
    root.freeze()
    if any(p.requires_grad for p in root.parameters()): viol.append({"kind": "tree:freeze", "detail": f"tree {shape}"})
    if root.num_params(trainable=True) != 0 or root.num_params(non_trainable=True) != sum(exp): viol.append({"kind": "tree:num_params", "detail": "trainable/frozen split after freeze"})
    root.unfreeze()
    if not all(p.requires_grad for p in root.parameters()): viol.append({"kind": "tree:unfreeze", "detail": f"tree {shape}"})
    # zero_grad reaches every parameter of the tree, also below containers that hold no parameter themselves
    params = list(root.parameters())
    if params:
        tot = None
        for q in params: tot = q.sum() if tot is None else tot + q.sum()
        try:
            tot.backward()
            if any(q.grad is None or not np.all(np.asarray(q.grad.data) == 1) for q in params):
                viol.append({"kind": "tree:backward", "detail": f"tree {shape}: a parameter did not receive its gradient"})
            root.zero_grad()
            left = [q.size for q in params if q.grad is not None and np.any(np.asarray(q.grad.data) != 0)]
            if left: viol.append({"kind": "tree:zero_grad", "detail": f"tree {shape}: root.zero_grad() left gradients on parameters of sizes {left}"})
        except Exception as e:
            viol.append({"kind": "tree:zero_grad", "detail": f"tree {shape}: {type(e).__name__}: {str(e)[:80]}"})
    # the same calls issued while gradient tracking is switched off (a fine-tuning callback during validation): what a
    # module call does to its tree does not depend on the gradient mode
    sg_ = harness.load()
    for cname, ctx in (("no_grad", sg_.no_grad), ("retain_grads", sg_.retain_grads)):
        with ctx():
            root.freeze(); fr = [p.requires_grad for p in root.parameters()]
            root.unfreeze(); un = [p.requires_grad for p in root.parameters()]
            root.eval(); ev = [m.training for m in allmods]
            root.train(); tr = [m.training for m in allmods]
        un2 = [p.requires_grad for p in root.parameters()]
        if any(fr): viol.append({"kind": "tree:freeze", "detail": f"tree {shape}: freeze() inside {cname} left trainable parameters"})
        if not all(un) or not all(un2): viol.append({"kind": "tree:unfreeze", "detail": f"tree {shape}: unfreeze() inside {cname} left frozen parameters"})
        if any(ev) or not all(tr): viol.append({"kind": "tree:mode-not-propagated", "detail": f"tree {shape}: eval()/train() inside {cname}"})
        if root.num_params(trainable=True) != sum(exp): viol.append({"kind": "tree:num_params", "detail": f"trainable count after unfreeze inside {cname}"})
    return viol

def run(tier, seed):
    depth = 4 if tier == "quick" else 5
    res = explorer.explore(make_world, depth, time_budget=900 if tier == "thorough" else 100)
    seqs = [{"seq": list(c), "form": f} for n in (1, 2, 3) for c in itertools.product(LAYERS, repeat=n) for f in ("positional", "ordered_dict")]
    seqs += [{"seq": list(c), "form": f} for n in (2, 3, 4) for c in itertools.product(("double", "inc", "linear"), repeat=n)
             for f in ("nested_single", "nested_first", "nested_last", "nested_both")]
    # long pipelines (positional names "0" .. "12": string order differs from numeric order beyond ten stages)
    for n in (10, 11, 12, 13, 21):
        pat = [("double", "inc", "linear", "inc", "relu")[i % 5] for i in range(n)]
        seqs += [{"seq": pat, "form": f} for f in ("positional", "ordered_dict")]
        seqs += [{"seq": pat, "form": "positional", "edit": "append"}]
    seqs += [{"seq": list(c), "form": f, "repeat_first_last": True} for n in (2, 3) for c in itertools.product(LAYERS, repeat=n) for f in ("positional", "ordered_dict")]
    seqs += [{"seq": list(c), "form": f, "edit": e} for n in (1, 2, 3) for c in itertools.product(LAYERS, repeat=n) for f in ("positional", "ordered_dict")
             for e in ("replace_first", "replace_last_by_register", "append")]
    nseq = 0
    with harness.quiet():
        for c in seqs:
            nseq += 1
            for vv in sequential_case(c):
                res.violations.append(dict(vv, case=c))
    trees = [{"tree": t, "own_first": of, "attach": at} for t in tree_shapes(5 if tier == "quick" else 6) for of in (True, False) for at in ("bottom_up", "top_down")]
    # the attribute NAME is the user's choice: a private-looking or capitalised name registers like any other
    trees += [{"tree": t, "own_first": of, "attach": "bottom_up", "names": nm} for t in tree_shapes(4) for of in (True, False) for nm in ("_", "__priv_", "X")]
    trees += [{"tree": t, "own_first": True, "attach": at, "bare_inner": True} for t in tree_shapes(5 if tier == "quick" else 6) for at in ("bottom_up", "top_down")]
    with harness.quiet():
        for c in trees:
            for vv in tree_case(c):
                res.violations.append(dict(vv, case=c))
    cov = {"states": res.states, "transitions": res.transitions, "traces_validated_against_impl": res.transitions + nseq + len(trees), "tree_shapes": len(trees),
           "samples": res.samples + seqs[-2:], "exhaustive": res.complete, "depth": res.max_depth, "level_sizes": res.level_sizes,
           "pruned_violating_transitions": res.pruned, "sequential_programs": nseq,
           "rule": f"all histories up to depth {depth} over 3 Modules (m0>m1>m2 nesting only, so no cycles), 3 Parameters (one re-wrapping another's storage), attribute "
                   "names {x,y}: setattr(module|parameter|plain Tensor|None), register_module/register_parameter, train/eval/freeze/unfreeze/"
                   "zero_grad on any node, one backward through all trainable parameters; after every event, for every module as "
                   "root: parameters() identity list (each reachable once; order = registration order, slot-keeping or latest-"
                   "registration both accepted), num_params x3, training flags, requires_grad flags, gradient presence; plus all "
                   f"{nseq} Sequentials of <= 3 layers (and pipelines of 10-21 stages) over {{x*2, x+1, relu, Linear}} positional and OrderedDict, every ordered tree shape with <= 5 modules (parameters() = depth-first pre-order, mode / freeze / zero_grad propagation, also with inner containers that hold no parameter of their own), also with the same module instance in two positions and with post-construction edits "
                   "(replace the first stage by attribute assignment, the last by register_module, append a stage)"}
    return {"level": "model_checking", "violations": res.violations, "coverage": cov,
            "assumptions": ["cycles in the module graph are excluded", "whether zero_grad also clears a frozen parameter's stale gradient is left open",
                            "re-assigning a name may keep its slot (dict semantics) or move to the end; both orders accepted"]}
