"""C19 - results are reproducible under manual_seed and independent of hash order.

Program space: all sequences of length <= L over the random-consuming alphabet (rand, randn, normal,
randint, the six random nn.init functions, Linear/Conv1d/Conv2d/BatchNorm constructors, Dropout
forward, split_dataset shuffle, one SGD training step on Linear+Dropout) x seeds.  (a) run, re-seed,
re-run in process: digests equal; (b) the same programs in fresh interpreters with different
PYTHONHASHSEED values and allocation layouts: identical digest tables; (c) a fixed forward+backward
program repeated 1..5 times: identical digests; (d) under the scripted random source every letter
draws only from the entry points manual_seed seeds (an un-modelled entry point is a loud error)."""
import sys, os, json, hashlib, itertools, subprocess
import numpy as np
from mc import harness, engine, randsrc

NO_CONFIRM_KINDS = ("fixed-program:",)      # process / repetition dependence is observed across interpreters, not per case
LETTERS = ["rand", "randn", "normal", "randint", "uniform_", "normal_", "xavier_uniform_", "xavier_normal_", "kaiming_uniform_",
           "kaiming_normal_", "Linear", "Conv1d", "Conv2d", "BatchNorm", "Dropout", "split", "train_step", "apply_init", "params_init",
           "draws_other_dtypes"]
SEEDS = (0, 1, 12345)

def _dig(arrs):
    h = hashlib.sha256()
    for a in arrs:
        a = np.ascontiguousarray(a); h.update(str(a.dtype).encode()); h.update(str(a.shape).encode()); h.update(a.tobytes())
    return h.hexdigest()[:20]

def run_letter(sg, letter):
    """-> list of arrays produced"""
    nn = sg.nn
    if letter == "rand": return [sg.rand(2, 3).data]
    if letter == "randn": return [sg.randn(3, 2).data]
    if letter == "normal": return [sg.normal(1.0, 2.0, 4).data]
    if letter == "randint": return [sg.randint(0, 10, (5,)).data]
    if letter == "draws_other_dtypes":
        # the same generators asked for every dtype they accept: the seeded stream feeds all of them
        out = []
        for dt in (np.int64, np.int32, np.int16, int):
            out.append(sg.randint(0, 1000, (4,), dtype=dt).data)
        for dt in (np.float64, np.float32, np.float16):
            out += [sg.rand(3, dtype=dt).data, sg.randn(3, dtype=dt).data, sg.normal(0.5, 2.0, 3, dtype=dt).data]
        for dt in (np.float64, np.float32):
            t = sg.Tensor(np.zeros((3, 4), dtype=dt))
            for f in ("uniform_", "normal_", "xavier_normal_", "kaiming_uniform_"):
                getattr(nn.init, f)(t); out.append(np.array(t.data, copy=True))
        return out
    if letter in ("uniform_", "normal_", "xavier_uniform_", "xavier_normal_", "kaiming_uniform_", "kaiming_normal_"):
        t = sg.Tensor(np.zeros((3, 4), dtype=np.float32)); getattr(nn.init, letter)(t); return [t.data]
    if letter == "Linear":
        L = nn.Linear(3, 2); return [L.weight.data, L.bias.data]
    if letter == "Conv1d":
        L = nn.Conv1d(2, 2, 3); return [L.weight.data, L.bias.data]
    if letter == "Conv2d":
        L = nn.Conv2d(1, 2, (2, 3)); return [L.weight.data, L.bias.data]
    if letter == "BatchNorm":
        L = nn.BatchNorm1d(3); return [L.weight.data, L.bias.data, L.running_mean.data, L.running_var.data]
    if letter == "Dropout":
        x = sg.Tensor(np.arange(1.0, 9.0).reshape(2, 4), requires_grad=True)
        y = nn.Dropout(0.5)(x); y.backward(sg.Tensor(np.ones((2, 4)))); return [y.data, x.grad.data]
    if letter == "split":
        from synapgrad.nn.utils import data as D
        X = np.arange(20.0).reshape(10, 2); y = np.arange(10.0)
        tr, te, va = D.split_dataset(X, y, test_split=0.3, val_split=0.25, shuffle=True)
        return [tr[0], tr[1], te[0], te[1], va[0], va[1]]
    if letter == "train_step":
        class Net(nn.Module):
            def __init__(s):
                super().__init__(); s.l = nn.Linear(3, 2); s.d = nn.Dropout(0.5)
            def forward(s, x): return s.d(s.l(x))
        m = Net(); opt = sg.optim.SGD(m.parameters(), lr=0.1, momentum=0.9)
        x = sg.Tensor(np.linspace(-1, 1, 12).reshape(4, 3).astype(np.float32))
        outs = []
        for _ in range(2):
            loss = nn.MSELoss()(m(x), sg.Tensor(np.ones((4, 2), dtype=np.float32)))
            opt.zero_grad(); loss.backward(); opt.step()
            outs += [np.asarray(loss.data), m.l.weight.grad.data.copy()]
        return outs + [m.l.weight.data, m.l.bias.data]
    if letter in ("apply_init", "params_init"):
        # a container with several differently shaped layers re-initialised after seeding, through Module.apply / parameters():
        # the order in which the layers consume the seeded stream is the registration order, not an address order
        class Block(nn.Module):
            def __init__(s, i, o):
                super().__init__(); s.a = nn.Linear(i, o); s.act = nn.ReLU(); s.b = nn.Linear(o, i)
        class Net(nn.Module):
            def __init__(s):
                super().__init__()
                s.l1 = nn.Linear(3, 4); s.blk = Block(4, 2); s.l2 = nn.Linear(4, 5); s.blk2 = Block(5, 3); s.l3 = nn.Linear(5, 1)
        keep = [bytearray(37 * (k + 1)) for k in range(40)]       # perturb allocation between the layers' constructions
        m = Net()
        if letter == "apply_init":
            def init_fn(mod):
                if isinstance(mod, nn.Linear):
                    nn.init.xavier_uniform_(mod.weight); nn.init.uniform_(mod.bias, -0.5, 0.5)
            m.apply(init_fn)
        else:
            for prm in m.parameters():
                nn.init.normal_(prm, 0.0, 0.1)
        return [prm.data for prm in m.parameters()]
    raise harness.HarnessError(letter)

def run_program(sg, prog, seed):
    sg.manual_seed(seed)
    out = []
    for l in prog:
        out += [np.array(a, copy=True) for a in run_letter(sg, l)]
    return _dig(out)

def programs(L):
    out = []
    for n in range(1, L + 1):
        out += [list(p) for p in itertools.product(LETTERS, repeat=n)]
    return out

def fixed_program(sg, reps):
    """deterministic forward+backward (no randomness), repeated"""
    nn = sg.nn; F = nn.functional
    digs = []
    for _ in range(reps):
        x = sg.Tensor(np.sin(np.arange(2 * 2 * 5 * 5) * 0.3).reshape(2, 2, 5, 5), requires_grad=True)
        w = sg.Tensor(np.cos(np.arange(3 * 2 * 3 * 3) * 0.7).reshape(3, 2, 3, 3), requires_grad=True)
        h = F.max_pool2d(F.relu(F.conv2d(x, w, None, stride=1, padding=1)), 2)
        z = F.log_softmax(h.reshape((2, -1)), 1)
        d = {id(z): 1, id(h): 2}                      # dict / set use inside the program must not matter
        loss = (z * z).sum() + sum(t.sum() for t in {x, w}) * 0.0
        loss.backward()
        digs.append(_dig([z.data, np.asarray(loss.data), x.grad.data, w.grad.data]) + fanout_program(sg))
        junk = [bytearray(61 * (k % 7 + 1)) for k in range(2000 * (_ + 1))]     # perturb the heap between repetitions
    return digs

def persistent_program(sg, reps):
    """layer OBJECTS built once (eval mode: nothing is documented to change) and one fixed batch; forward + backward repeated
    on the same objects - every repetition must give the same bits (outputs, gradients, buffers)"""
    nn = sg.nn
    bn1 = nn.BatchNorm1d(3, eps=1e-3); bn2 = nn.BatchNorm2d(2, eps=1e-2, momentum=0.5); lin = nn.Linear(3, 2); conv = nn.Conv2d(2, 2, 2); do = nn.Dropout(0.5)
    for k, L in enumerate((bn1, bn2)):
        C = L.running_mean.shape[0]
        L.running_mean = sg.Tensor(np.cos(np.arange(C) + k) * 0.5); L.running_var = sg.Tensor(1.0 + 0.25 * np.sin(np.arange(C) + k))
        L.weight.data[...] = 1.0 + 0.1 * np.arange(C); L.bias.data[...] = 0.05 * np.arange(C)
    lin.weight.data[...] = np.sin(np.arange(6) * 0.9).reshape(2, 3); lin.bias.data[...] = 0.0
    conv.weight.data[...] = np.cos(np.arange(16) * 0.4).reshape(2, 2, 2, 2); conv.bias.data[...] = [0.0, 0.25]
    mods = (bn1, bn2, lin, conv, do)
    for m in mods: m.eval()
    digs = []
    for r in range(reps):
        for m in mods: m.zero_grad()
        x = sg.Tensor(np.sin(np.arange(12) * 0.7).reshape(4, 3), requires_grad=True)
        y = sg.Tensor(np.cos(np.arange(36) * 0.3).reshape(2, 2, 3, 3), requires_grad=True)
        a = do(lin(bn1(x))); b = conv(bn2(y))
        loss = (a * a).sum() + (b * b * b).sum()
        loss.backward()
        params = [p for m in mods for p in m.parameters()]
        digs.append(_dig([a.data, b.data, x.grad.data, y.grad.data] + [p.grad.data for p in params if p.grad is not None]
                         + [bn1.running_mean.data, bn1.running_var.data, bn2.running_mean.data, bn2.running_var.data]))
    return digs

_W0 = {dt: (np.sin(np.arange(6) * 0.8).reshape(2, 3) * 0.5).astype(dt) for dt in (np.float32, np.float64)}
_B0 = {dt: np.array([0.1, -0.2], dtype=dt) for dt in (np.float32, np.float64)}

def train_from_arrays_program(sg, reps):
    """a seeded program that starts from fixed ndarrays through the `synapgrad.tensor` factory (torch.tensor semantics: a copy),
    draws its data, trains a few optimizer steps - run `reps` times in one process: same bits every time"""
    digs = []
    for r in range(reps):
        out = []
        for dt in (np.float32, np.float64):
            sg.manual_seed(77)
            w = sg.tensor(_W0[dt], requires_grad=True, dtype=dt); b = sg.tensor(_B0[dt], requires_grad=True, dtype=dt)
            x = sg.Tensor(np.asarray(sg.randn(4, 3).data, dtype=dt))
            for opt in (sg.optim.SGD([w, b], lr=0.1, momentum=0.9), sg.optim.Adam([w, b], lr=0.05)):
                for _ in range(3):
                    opt.zero_grad()
                    y = sg.nn.functional.linear(x, w, b)
                    (y * y).sum().backward()
                    opt.step()
            out += [w.data, b.data, w.grad.data]
        digs.append(_dig(out))
    return digs

def fanout_program(sg):
    """one float32 tensor feeding seven branches whose gradient contributions differ by many orders of magnitude: the bits of
    x.grad depend on the ORDER in which the contributions are accumulated, which must not depend on object addresses"""
    x = sg.Tensor(np.array([1.0, 3.0, -7.0], dtype=np.float32), requires_grad=True)
    ws = [1e8, 1.0, -1e8, 3.14159, 1e-3, 2.5e7, -2.5e7]
    keep = []
    acc = None
    for k, w in enumerate(ws):
        keep.append([bytearray(33 * (k + 1)) for _ in range(50)])
        b = x * sg.Tensor(np.array([w, w * 0.37, w * 1.91], dtype=np.float32))
        acc = b if acc is None else acc + b
    y = sg.stack([acc, x * x, acc * x], 0)
    y.sum().backward()
    return _dig([x.grad.data, np.asarray(y.data)])

def mixed_operands_program(sg):
    """calls whose operands differ in dtype (a float32 sample next to integer labels, float32 next to float64): which dtype the
    result gets, and therefore every bit of it, is a function of the operands - not of the order in which a set or dict of
    dtypes / tensors happens to iterate in this interpreter"""
    sg.manual_seed(7)
    a32 = sg.rand(4, 3); i32 = sg.randint(0, 9, (4, 3))
    kinds = {"f32": a32, "i32": i32, "f64": sg.Tensor(np.asarray(a32.data, dtype=np.float64) * 1.1),
             "i64": sg.Tensor(np.arange(12).reshape(4, 3)), "f16": sg.Tensor(np.asarray(a32.data, dtype=np.float16))}
    out = []
    for (na, ta), (nb, tb) in itertools.permutations(kinds.items(), 2):
        for name, fn in (("concat0", lambda: sg.concat([ta, tb], 0)), ("concat1", lambda: sg.concat([ta, tb, ta], 1)), ("stack", lambda: sg.stack([ta, tb], 0)),
                         ("add", lambda: ta + tb), ("mul", lambda: ta * tb), ("matmul", lambda: ta @ tb.transpose(0, 1))):
            try:
                r = fn(); out.append(_dig([np.asarray(r.data)]))
            except Exception as e:
                out.append(f"{name}:{na}:{nb}:raised:{type(e).__name__}")
    return out

def table(L):
    sg = harness.load()
    import synapgrad.nn.utils.data
    t = {}
    with harness.quiet():
        for prog in programs(L):
            for s in SEEDS:
                t["|".join(prog) + f"@{s}"] = run_program(sg, prog, s)
        t["fixed"] = fixed_program(sg, 5)
        t["fixed_persistent_layers"] = persistent_program(sg, 5)
        t["fixed_train_from_arrays"] = train_from_arrays_program(sg, 3)
        t["fixed_mixed_dtype_operands"] = mixed_operands_program(sg)
        from synapgrad.nn.utils import data as D
        labs = ["cat", "dog", "bird", "cat", "emu", "dog", "ant", "bird"]
        t["fixed_onehot_strings"] = [_dig([np.asarray(D.one_hot_encode(np.array(labs)))]), _dig([np.asarray(D.one_hot_encode(labs))])]
    return t

def worker_main():
    L = int(sys.argv[sys.argv.index("--worker") + 1])
    junk = "--junk" in sys.argv
    keep = [bytearray(137 * (i % 11 + 1)) for i in range(100000)] if junk else None
    json.dump(table(L), sys.stdout)

# ----------------------------------------------------------------------------- history independence of deterministic calls
def call_alphabet():
    """per op family a handful of near-miss configurations (same op, one argument / shape / dtype changed): the pairs where an
    incompletely keyed cache or a shared scratch buffer would bite"""
    from mc import catalog_tensor as ct, catalog_nn as cn
    fams = {}
    for fam, cases in (("t", ct.cases("quick", "grad")), ("n", cn.cases("quick", "grad"))):
        for c in cases:
            if c["op"] == "dropout": continue
            fams.setdefault((fam, c["op"], c.get("form", "fn")), []).append(c)
    out = []
    for key, cs in sorted(fams.items()):
        pick = cs[:: max(1, len(cs) // 5)][:5] + cs[-1:]
        out.append({"kind": "pairs", "family": list(key), "letters": pick})
    return out

def _run_letter(letter, dt):
    from mc import catalog_tensor as ct, catalog_nn as cn, values
    fam = cn if "form" in letter else ct
    arrays = fam.arrays_for(letter, dtype=dt)
    diff = cn.diff_idx(letter, arrays) if fam is cn else list(range(len(arrays)))
    out, ts = fam.run_lib(letter, arrays, [i in diff for i in range(len(arrays))])
    res = [np.asarray(out.data).copy()]
    if out.requires_grad:
        out.backward(harness.load().Tensor(np.asarray(values.dense_g(out.shape), dtype=out.dtype if out.dtype.kind == "f" else np.float64)))
        res += [np.asarray(ts[i].grad.data).copy() for i in diff if ts[i].grad is not None]
    return _dig(res)

def judge_pairs(case):
    """for all ordered pairs (A, B) of letters x dtypes: digest(B after A in one process) == digest(B alone in a fresh process)"""
    from mc import parallel
    letters = [(l, dt) for l in case["letters"] for dt in (np.float32, np.float64)]
    def safe(l, dt):
        try: return _run_letter(l, dt)
        except Exception as e: return "raise:" + type(e).__name__
    alone = [parallel.fork_call(lambda l=l, dt=dt: safe(l, dt)) for l, dt in letters]
    viol = []; npairs = 0
    for ia, (la, dta) in enumerate(letters):
        def after_a():
            safe(la, dta)
            return [safe(lb, dtb) for lb, dtb in letters]
        got = parallel.fork_call(after_a)
        for ib, g in enumerate(got):
            npairs += 1
            if g != alone[ib] and not viol:
                lb, dtb = letters[ib]
                viol.append({"kind": f"{case['family'][1]}:result-depends-on-earlier-call",
                             "detail": f"{lb} ({np.dtype(dtb).name}) gives other bits after {la} ({np.dtype(dta).name}) ran in the same process than in a fresh process"})
    return {"nontrivial": True, "outcome": "ok", "violations": viol, "pairs": npairs}

def judge_boundary(case):
    """operands on the boundary of an operation's domain (exact zeros under sqrt / log / fractional powers, zero denominators ...):
    values and gradients there may be inf or nan, but they are the SAME inf / nan on every repetition, whatever the heap looked like
    before (blocks of the result's size are allocated, filled with 0 / 7 / -123.5 / nan and freed before each repetition)"""
    from mc import catalog_tensor as ct, catalog_nn as cn, values
    sg = harness.load()
    c = case["case"]; fam = cn if "form" in c else ct
    arrays = fam.arrays_for(c)
    diff = [i for i in (cn.diff_idx(c, arrays) if fam is cn else range(len(arrays))) if np.asarray(arrays[i]).dtype.kind == "f"]
    rg = [i in diff for i in range(len(arrays))]
    digs = []
    for fill in (0.0, 7.0, -123.5, float("nan")):
        junk = [np.full(max(int(np.asarray(a).size), 1) * k, fill, dtype=np.float64) for a in arrays for k in (1, 2, 3)] + \
               [np.full(max(int(np.asarray(a).size), 1), fill, dtype=np.float32) for a in arrays]
        del junk
        try:
            out, ts = fam.run_lib(c, arrays, rg)
            parts = [np.asarray(out.data)]
            if out.requires_grad and np.asarray(out.data).dtype.kind == "f":
                out.backward(sg.Tensor(np.asarray(values.dense_g(out.shape), dtype=out.dtype)))
                parts += [np.asarray(ts[i].grad.data) for i in diff if ts[i].grad is not None]
            digs.append(_dig(parts))
        except harness.HarnessError:
            raise
        except Exception as e:
            digs.append("raise:" + type(e).__name__)
    viol = []
    if len(set(digs)) != 1:
        viol.append({"kind": f"{c['op']}:boundary-result-depends-on-heap", "detail": f"{c['op']} {c.get('args')} on {c.get('pats')} operands: result / gradient bits differ between "
                     f"repetitions that differ only in what freed memory contained ({digs})"})
    return {"nontrivial": True, "outcome": "ok", "violations": viol}

def judge(case):
    sg = harness.load()
    viol = []
    if case["kind"] == "pairs":
        return judge_pairs(case)
    if case["kind"] == "boundary_repeat":
        return judge_boundary(case)
    prog = case["prog"]
    if case["kind"] == "rerun":
        d = {}
        for s in SEEDS:
            a = run_program(sg, prog, s); b = run_program(sg, prog, s)
            if a != b: viol.append({"kind": f"{prog[-1]}:differs-on-rerun", "detail": f"program {prog} seed {s}: two in-process runs after manual_seed differ"})
            d[s] = a
        if len(prog) == 1 and prog[0] != "BatchNorm" and len(set(d.values())) == 1:
            viol.append({"kind": f"{prog[0]}:ignores-seed", "detail": f"{prog} gives identical results for seeds {SEEDS}"})
        return {"nontrivial": True, "outcome": "ok", "violations": viol}
    if case["kind"] == "controlled":
        # every random draw must come through an entry point that manual_seed seeds
        try:
            with randsrc.controlled(u=lambda k: ((k * 0.6180339887) % 1.0), z=lambda k: ((k * 0.7548776662) % 1.0) * 2 - 1, cycle=True) as src:
                a = _dig([np.array(x, copy=True) for x in run_letter(sg, prog[0])])
            with randsrc.controlled(u=lambda k: ((k * 0.6180339887) % 1.0), z=lambda k: ((k * 0.7548776662) % 1.0) * 2 - 1, cycle=True) as src:
                b = _dig([np.array(x, copy=True) for x in run_letter(sg, prog[0])])
            if a != b:
                viol.append({"kind": f"{prog[0]}:draws-bypass-seeded-generators", "detail": f"{prog[0]}: same scripted random stream, different results - some randomness does not come from numpy.random / random"})
        except harness.HarnessError as e:
            viol.append({"kind": f"{prog[0]}:draws-bypass-seeded-generators", "detail": str(e)})
        return {"nontrivial": True, "outcome": "ok", "violations": viol}
    raise harness.HarnessError(case["kind"])

def replay(case):
    with harness.quiet():
        return judge(case)["violations"]

def run(tier, seed):
    L = 2 if tier == "quick" else 3
    harness.load()
    import synapgrad.nn.utils.data
    progs = programs(L)
    pair_cases = call_alphabet()
    from checks import c11 as _c11
    bcases = [{"kind": "boundary_repeat", "case": c} for c in _c11.boundary_cases()]
    cases = [{"kind": "rerun", "prog": p} for p in progs] + [{"kind": "controlled", "prog": [l]} for l in LETTERS] + pair_cases + bcases
    r = engine.run_cases(cases, judge)
    viols = r["violations"]
    # (b) fresh interpreters: hash seeds x allocation layouts
    Lw = 2 if tier == "quick" else 2
    envs = [("0", False), ("1", True), ("2", False), ("4242", True)] + ([("7", False), ("31337", True), ("random", False), ("random", True)] if tier == "thorough" else [])
    procs = []
    for hs, junk in envs:
        env = dict(os.environ, PYTHONHASHSEED=hs)
        cmd = [sys.executable, "-m", "checks.c19", "--worker", str(Lw)] + (["--junk"] if junk else [])
        procs.append(((hs, junk), subprocess.Popen(cmd, cwd=os.path.dirname(os.path.dirname(os.path.abspath(__file__))), env=env,
                                                   stdout=subprocess.PIPE, stderr=subprocess.PIPE)))
    base = table(Lw)
    nproc_ok = 0
    for (hs, junk), p in procs:
        out, err = p.communicate(timeout=1200)
        if p.returncode != 0:
            raise harness.HarnessError(f"worker interpreter failed: {err.decode()[-400:]}")
        t = json.loads(out.decode())
        nproc_ok += 1
        diff = [k for k in base if t.get(k) != base[k]]
        if diff:
            k = diff[0]
            kind = "fixed-program:depends-on-process" if k.startswith("fixed") else f"fixed-program:letter-{k.split('@')[0].split('|')[-1]}-differs-across-processes"
            viols.append({"kind": kind, "detail": f"{len(diff)} of {len(base)} digests differ in a fresh interpreter (PYTHONHASHSEED={hs}, junk allocations={junk}); first: {k}",
                          "case": {"kind": "process", "prog": k, "hashseed": hs, "junk": junk}})
    if len(set(base["fixed"])) != 1:
        viols.append({"kind": "fixed-program:depends-on-repetition", "detail": f"digests of 5 repetitions: {base['fixed']}", "case": {"kind": "fixed"}})
    if len(set(base["fixed_train_from_arrays"])) != 1:
        viols.append({"kind": "fixed-program:depends-on-repetition", "detail": "manual_seed; parameters = synapgrad.tensor(fixed ndarray); 3 SGD + 3 Adam steps - run 3 times "
                      f"in one process: digests {base['fixed_train_from_arrays']} (the factory is documented to create a tensor FROM an array, like torch.tensor)",
                      "case": {"kind": "fixed_train_from_arrays"}})
    if len(set(base["fixed_persistent_layers"])) != 1:
        viols.append({"kind": "fixed-program:depends-on-repetition", "detail": "eval-mode BatchNorm1d/2d + Linear + Conv2d + Dropout objects built once, the same batch pushed "
                      f"forward and backward 5 times: digests {base['fixed_persistent_layers']}", "case": {"kind": "fixed_persistent_layers"}})
    cov = {"states": len(progs), "transitions": sum(len(p) for p in progs) * len(SEEDS) * 2, "traces_validated_against_impl": r["evaluations"] + nproc_ok * len(base),
           "evaluations": r["evaluations"], "distinct_nontrivial": r["distinct_nontrivial"], "samples": r["samples"], "exhaustive": True,
           "fresh_interpreters": nproc_ok, "digests_per_interpreter": len(base), "history_independence_families": len(pair_cases),
           "history_independence_pairs": sum((2 * len(c["letters"])) ** 2 for c in pair_cases),
           "rule": f"all {len(progs)} programs of length <= {L} over {len(LETTERS)} random-consuming letters x seeds {SEEDS}: run / re-seed / re-run in "
                   f"process (bitwise digests of every produced array, gradient and parameter); programs of length <= {Lw} again in {len(envs)} fresh "
                   "interpreters with PYTHONHASHSEED in {0,1,2,4242,...} with and without 10^5 junk allocations (identical digest tables); a fixed "
                   "conv/pool/log_softmax forward+backward repeated 5 times, and eval-mode layer objects (BatchNorm1d/2d, Linear, Conv2d, Dropout) built once and driven forward+backward 5 times, and a seeded training program starting from fixed ndarrays through synapgrad.tensor() run 3 times; each letter under the scripted random source twice (no draw bypasses "
                   "the generators manual_seed seeds); every boundary-of-domain case of C11 repeated 4 times over differently filled freed memory (same inf / nan bits each time); history independence: for every op family of both catalogues, all ordered pairs (A, B) over ~6 "
                   "near-miss configurations x 2 dtypes - B after A in one process must give the bits B gives in a fresh process; states = programs, transitions = letter executions"}
    return {"level": "model_checking", "violations": viols, "coverage": cov,
            "assumptions": ["cross-machine reproducibility (BLAS builds) is out of reach in this sandbox"]}

if __name__ == "__main__":
    if "--worker" in sys.argv:
        sys.path.insert(0, os.path.dirname(os.path.dirname(os.path.abspath(__file__))))
        worker_main()
