"""C20 - Trainer.fit performs one optimisation step per batch in the right mode.

Every configuration of {epochs} x {train batches} x {validation loader} x {evaluator mode} x
{callbacks} x {initial model mode}; a monitor installed from outside (subclassed optimizer, model,
criterion; wrapped Tensor.backward) records every call with model.training and the grad mode seen
by a probe; the recorded trace is checked against the protocol automaton of the statement."""
import itertools, hashlib
import numpy as np
from mc import harness, engine

BATCH = 4
NF = 3

def all_cases(tier):
    out = []
    for ep, nb, vb, ev, cb, init in itertools.product((0, 1, 2, 3), (1, 2, 3), (None, 1, 2), (None, "binary", "multi-class", "categorical", "multi-class+callbacks"),
                                                       (False, True, "flip", "peek"), ("train", "eval", "train+bn_eval", "eval+dropout_train", "train+bn_stats_frozen", "train+first_layer_frozen")):
        out.append({"epochs": ep, "train_batches": nb, "val_batches": vb, "evaluator": ev, "callbacks": cb, "initial_mode": init})
    zero = [{"zero_metric": True, "which": w, "epochs": ep, "val": val} for w in ("accuracy", "loss") for ep in (1, 2, 3) for val in (False, True)]
    return out + uneven_cases() + evaluator_cases() + zero

def _data(nb, mode, salt):
    n = nb * BATCH + (2 if nb else 0)            # a few left-over samples that never form a batch
    X = (np.sin(np.arange(n * NF) * 0.37 + salt) * 1.5).reshape(n, NF).astype(np.float32)
    cls = (np.arange(n) * 2 + salt) % 3
    if mode == "binary": y = (cls % 2).astype(np.float32)
    elif mode == "categorical": y = np.eye(3, dtype=np.float32)[cls]
    else: y = cls.astype(np.int64) if mode == "multi-class" else X[:, 0].astype(np.float32)
    return X, y

def judge(case):
    sg = harness.load(); nn = sg.nn
    from synapgrad.nn.utils import data as D, train as TR
    harness.reset_modes(verify=False)
    ev_mode = case["evaluator"]; epochs = case["epochs"]
    ev_cb = bool(ev_mode) and ev_mode.endswith("+callbacks")
    if ev_cb: ev_mode = ev_mode.split("+")[0]
    viol = []
    def v(sym, detail):
        if all(x["kind"] != sym for x in viol): viol.append({"kind": sym, "detail": detail})
    trace = []
    P = sg.Tensor(np.array(1.0), requires_grad=True)
    def gmode():
        return bool((P * 2.0).requires_grad)
    nout = 1 if ev_mode in (None, "binary") else 3
    class Net(nn.Module):
        def __init__(s):
            super().__init__()
            s.l1 = nn.Linear(NF, 4); s.bn = nn.BatchNorm1d(4); s.do = nn.Dropout(0.25); s.l2 = nn.Linear(4, nout)
            s.act = nn.Sigmoid() if ev_mode == "binary" else None
        def state(s):
            h = hashlib.sha256()
            for p in s.parameters(): h.update(np.asarray(p.data).tobytes())
            h.update(np.asarray(s.bn.running_mean.data).tobytes()); h.update(np.asarray(s.bn.running_var.data).tobytes())
            h.update(str(s.bn.num_batches_tracked).encode())
            return h.hexdigest()
        def pstate(s):
            h = hashlib.sha256()
            for p in s.parameters(): h.update(np.asarray(p.data).tobytes())
            return h.hexdigest()
        def forward(s, x):
            flags = (s.training, s.l1.training, s.bn.training, s.do.training, s.l2.training)
            before = s.state()
            y = s.l2(s.do(s.bn(s.l1(x))))
            if s.act is not None: y = s.act(y)
            trace.append(("forward", all(flags), any(flags), gmode(), before, s.state(), np.asarray(y.data).copy()))
            return y
    sg.manual_seed(7)
    model = Net()
    class Opt(sg.optim.SGD):
        def zero_grad(s):
            r = super().zero_grad()
            # what the reset left behind on parameters that are being trained (the point of calling it before every update)
            left = sum(1 for p in model.parameters() if p.requires_grad and p.grad is not None and np.any(np.asarray(p.grad.data) != 0))
            trace.append(("zero_grad", model.training, gmode(), left)); return r
        def step(s):
            b = model.pstate(); r = super().step(); trace.append(("step", model.training, gmode(), b != model.pstate())); return r
    opt = Opt(model.parameters(), lr=0.05)
    base = {None: nn.MSELoss, "binary": nn.BCELoss, "multi-class": nn.CrossEntropyLoss, "categorical": nn.MSELoss}[ev_mode]
    class Crit(base):
        def __call__(s, yp, yt):
            r = super().__call__(yp, yt)
            trace.append(("loss", float(np.asarray(r.data)), np.asarray(yt.data).copy())); return r
    crit = Crit()
    Tb = sg.Tensor.backward
    def backward(self, grad=None):
        trace.append(("backward", model.training, gmode())); return Tb(self, grad)
    class ToT(D.DataLoaderCallback):
        def __call__(s, dl, Xb, yb): return sg.Tensor(np.array(Xb)), sg.Tensor(np.array(yb))
    Xt, yt = _data(case["train_batches"], ev_mode, 1)
    train_loader = D.DataLoader(Xt, yt, BATCH, transform=ToT())
    val_loader = None
    if case["val_batches"]:
        Xv, yv = _data(case["val_batches"], ev_mode, 2); val_loader = D.DataLoader(Xv, yv, BATCH, transform=ToT())
    if ev_mode is None: evaluator = None
    elif ev_cb:
        # user metrics: per-epoch and per-step callbacks returning (name, value) pairs
        evaluator = TR.Evaluator(mode=ev_mode, epoch_callback=lambda yt_, yp_: [("n_seen", np.float64(len(yt_)))],
                                 step_callback=lambda yt_, yp_: [("n_step", np.float64(len(yt_)))])
    else: evaluator = TR.Evaluator(mode=ev_mode)
    tr = TR.Trainer(model, sg)
    tr.compile(crit, opt, evaluator)
    cbs = {}
    if case["callbacks"] == "flip":
        # callbacks that leave the model in the wrong mode (e.g. a callback that evaluates a probe set, or re-enables training)
        cbs = {"on_train_epoch": lambda m, l: (trace.append(("cb_train",)), m.eval()),
               "on_validation_epoch": lambda m, l: (trace.append(("cb_val",)), m.train())}
    elif case["callbacks"] == "peek":
        # callbacks that look at the first batch of the loader they are handed (fit passes it for that purpose) and stop there
        cbs = {"on_train_epoch": lambda m, l: (trace.append(("cb_train",)), next(iter(l))),
               "on_validation_epoch": lambda m, l: (trace.append(("cb_val",)), next(iter(l)))}
    elif case["callbacks"]:
        cbs = {"on_train_epoch": lambda m, l: trace.append(("cb_train",)), "on_validation_epoch": lambda m, l: trace.append(("cb_val",))}
    model.train() if case["initial_mode"].startswith("train") else model.eval()
    if case["initial_mode"] == "train+bn_eval": model.bn.eval()            # a submodule switched individually (frozen backbone)
    if case["initial_mode"] == "eval+dropout_train": model.do.train()
    if case["initial_mode"] == "train+first_layer_frozen": model.l1.freeze()      # frozen parameters come first in the optimizer's list
    if case["initial_mode"] == "train+bn_stats_frozen":
        # pretrained statistics frozen after construction (layer.track_running_stats = False on a layer that owns buffers)
        model.bn.running_mean.data[...] = np.array([0.5, -1.0, 0.25, 2.0], dtype=np.float32); model.bn.running_var.data[...] = np.array([0.5, 2.0, 1.5, 0.75], dtype=np.float32)
        model.bn.track_running_stats = False
    sg.Tensor.backward = backward
    try:
        try:
            hist = tr.fit(train_loader, epochs, val_loader, **cbs)
        except Exception as e:
            v("fit-raised", f"{type(e).__name__}: {str(e)[:100]}")
            return {"nontrivial": True, "outcome": "raise", "violations": viol}
        finally:
            sg.Tensor.backward = Tb
        if not gmode(): v("grad-mode-not-restored-after-fit", "gradient mode is disabled after fit()")
        nb, vb = case["train_batches"], case["val_batches"] or 0
        steps = [t for t in trace if t[0] == "step"]
        if len(steps) != epochs * nb:
            v("step-count", f"{len(steps)} optimizer steps for {epochs} epochs x {nb} batches")
        # ---- protocol automaton over the trace
        i = 0; losses = []; outs = []
        per_epoch = []
        def expect(kind):
            nonlocal i
            while i < len(trace) and trace[i][0] in ("cb_train", "cb_val"): i += 1
            if i >= len(trace) or trace[i][0] != kind:
                v("protocol-order", f"expected {kind} at trace position {i}, saw {trace[i][0] if i < len(trace) else 'end'}; trace kinds: {[t[0] for t in trace][:40]}")
                return None
            t = trace[i]; i += 1; return t
        ok = True
        for ep in range(epochs):
            tl, to_, tlab = [], [], []
            for b in range(nb):
                f = expect("forward")
                if f is None: ok = False; break
                if not f[1]: v("train-forward-not-in-training-mode", f"epoch {ep} batch {b}: model/submodule training flags not all True")
                if not f[3]: v("train-forward-without-grad-tracking", f"epoch {ep} batch {b}")
                l = expect("loss");
                if l is None: ok = False; break
                z = expect("zero_grad"); bw = expect("backward"); st = expect("step")
                if None in (z, bw, st): ok = False; break
                if not st[1]: v("step-not-in-training-mode", f"epoch {ep} batch {b}")
                if z[3]: v("gradients-not-cleared-before-update", f"epoch {ep} batch {b}: after optimizer.zero_grad() {z[3]} trainable parameter(s) still hold a non-zero gradient")
                tl.append(l[1]); to_.append(f[6]); tlab.append(l[2])
            if not ok: break
            vl, vo, vlab = [], [], []
            for b in range(vb):
                f = expect("forward")
                if f is None: ok = False; break
                if f[2]: v("validation-forward-not-in-eval-mode", f"epoch {ep} validation batch {b}: some module is in training mode")
                if f[3]: v("validation-with-grad-tracking", f"epoch {ep} validation batch {b}: gradient tracking enabled")
                if f[4] != f[5]: v("validation-changed-state", f"epoch {ep} validation batch {b}: parameters or running statistics changed during the forward")
                l = expect("loss")
                if l is None: ok = False; break
                vl.append(l[1]); vo.append(f[6]); vlab.append(l[2])
            if not ok: break
            per_epoch.append((tl, to_, tlab, vl, vo, vlab))
        if ok:
            while i < len(trace) and trace[i][0] in ("cb_train", "cb_val"): i += 1
            if i != len(trace): v("protocol-order", f"{len(trace) - i} unexpected trailing calls: {[t[0] for t in trace[i:]][:10]}")
        # state may only change across a step (parameters) or a training forward (running statistics)
        last = None
        for t in trace:
            if t[0] == "forward":
                if last is not None and t[4] != last and not changed_by_step: v("state-changed-outside-step", "model state changed between monitored calls without an optimizer step")
                last = t[5]; changed_by_step = False
            elif t[0] == "step": changed_by_step = True
        if case["callbacks"]:
            if sum(1 for t in trace if t[0] == "cb_train") != epochs: v("callback-count", "on_train_epoch not called once per epoch")
            if sum(1 for t in trace if t[0] == "cb_val") != (epochs if vb else 0): v("callback-count", "on_validation_epoch not called once per epoch")
        # ---- history
        keys = {"loss"} | ({"accuracy"} if ev_mode else set())
        if ev_cb: keys |= {"n_seen"}
        if vb: keys |= {"val_loss"} | ({"val_accuracy"} if ev_mode else set()) | ({"val_n_seen"} if ev_cb else set())
        if epochs == 0: keys = set()
        if set(hist.keys()) != keys: v("history-keys", f"history keys {sorted(hist.keys())}, expected {sorted(keys)}")
        for k in keys & set(hist.keys()):
            if len(hist[k]) != epochs: v("history-length", f"history[{k!r}] has {len(hist[k])} entries for {epochs} epochs")
        def acc(outs, labs):
            o = np.concatenate(outs); l = np.concatenate(labs)
            if ev_mode == "binary": return float(np.mean((o.reshape(len(o), -1)[:, 0] > 0.5).astype(int) == l.astype(int)))
            if ev_mode == "multi-class": return float(np.mean(np.argmax(o, 1) == l.astype(int)))
            return float(np.mean(np.argmax(o, 1) == np.argmax(l, 1)))
        if ev_cb and epochs > 0 and not any(x["kind"].startswith("history") for x in viol):
            if [float(x) for x in hist["n_seen"]] != [float(nb * BATCH)] * epochs:
                v("history-user-metric", f"history['n_seen'] = {list(hist['n_seen'])}, expected {nb * BATCH} per epoch")
            if vb and [float(x) for x in hist["val_n_seen"]] != [float(vb * BATCH)] * epochs:
                v("history-user-metric", f"history['val_n_seen'] = {list(hist['val_n_seen'])}, expected {vb * BATCH} per epoch")
        if ok and not any(x["kind"].startswith("history") for x in viol):
            for ep, (tl, to_, tlab, vl, vo, vlab) in enumerate(per_epoch):
                if abs(float(hist["loss"][ep]) - float(np.mean(tl))) > 1e-5 * max(1, abs(np.mean(tl))):
                    v("epoch-loss-not-mean", f"epoch {ep}: reported loss {hist['loss'][ep]}, mean of batch losses {np.mean(tl)}")
                if vb and abs(float(hist["val_loss"][ep]) - float(np.mean(vl))) > 1e-5 * max(1, abs(np.mean(vl))):
                    v("epoch-loss-not-mean", f"epoch {ep}: reported val_loss {hist['val_loss'][ep]}, mean {np.mean(vl)}")
                if ev_mode:
                    if abs(float(hist["accuracy"][ep]) - acc(to_, tlab)) > 1e-9:
                        v("accuracy", f"epoch {ep}: reported accuracy {hist['accuracy'][ep]}, fraction correct {acc(to_, tlab)} (mode {ev_mode})")
                    if vb and abs(float(hist["val_accuracy"][ep]) - acc(vo, vlab)) > 1e-9:
                        v("accuracy", f"epoch {ep}: reported val_accuracy {hist['val_accuracy'][ep]}, fraction correct {acc(vo, vlab)}")
        # ---- test(): eval mode, no grad, nothing changes, grad mode restored (called with the mode enabled and disabled)
        if val_loader is not None:
            for outer in (True, False):
                trace.clear(); s0 = model.state(); model.train()
                try:
                    if outer: yp, ytrue = tr.test(val_loader); restored = gmode()
                    else:
                        with sg.no_grad():
                            yp, ytrue = tr.test(val_loader); restored = not gmode()
                except Exception as e:
                    v("test-raised", f"{type(e).__name__}: {str(e)[:100]}"); break
                if not restored: v("grad-mode-not-restored-after-test", f"test() called with gradient mode {'enabled' if outer else 'disabled'} left it changed")
                fw = [t for t in trace if t[0] == "forward"]
                if len(fw) != vb: v("test-forward-count", f"{len(fw)} forwards for {vb} batches")
                if any(t[2] for t in fw): v("test-forward-not-in-eval-mode", "a module was in training mode during test()")
                if any(t[3] for t in fw): v("test-with-grad-tracking", "gradient tracking enabled during test()")
                if model.state() != s0: v("test-changed-state", "parameters or running statistics changed during test()")
                if len(yp) != vb * BATCH or len(ytrue) != vb * BATCH: v("test-result-size", f"{len(yp)} predictions for {vb * BATCH} samples")
        # ---- a second fit() on the same Trainer (warm restart, no validation loader this time): its history is its own
        if not viol:
            trace.clear()
            try:
                hist2 = tr.fit(train_loader, 1, None)
            except Exception as e:
                v("second-fit-raised", f"{type(e).__name__}: {str(e)[:100]}"); hist2 = None
            if hist2 is not None:
                keys2 = {"loss"} | ({"accuracy"} if ev_mode else set()) | ({"n_seen"} if ev_cb else set())
                if set(hist2.keys()) != keys2:
                    v("history-keys", f"second fit() on the same Trainer (1 epoch, no validation loader): history keys {sorted(hist2.keys())}, expected {sorted(keys2)}")
                for k in keys2 & set(hist2.keys()):
                    if len(hist2[k]) != 1: v("history-length", f"second fit() on the same Trainer: history[{k!r}] has {len(hist2[k])} entries for 1 epoch")
                nsteps = sum(1 for t in trace if t[0] == "step")
                if nsteps != nb: v("step-count", f"second fit(): {nsteps} optimizer steps for 1 epoch x {nb} batches")
        nt = epochs >= 1
    finally:
        sg.Tensor.backward = Tb
        harness.reset_modes(verify=False)
    return {"nontrivial": nt, "outcome": "ok", "violations": viol, "events": len(trace)}

def judge_uneven(case):
    """user-supplied loaders (any iterable of (inputs..., labels) with a length) whose batches differ in size: the reported epoch
    loss is the mean of the per-BATCH losses (the statement), not a per-sample average; one update per batch"""
    sg = harness.load(); nn = sg.nn
    from synapgrad.nn.utils import train as TR
    harness.reset_modes(verify=False)
    viol = []
    def v(sym, detail):
        if all(x["kind"] != sym for x in viol): viol.append({"kind": sym, "detail": detail})
    sizes_t, sizes_v, epochs = case["train_sizes"], case["val_sizes"], case["epochs"]
    def mk(sizes, salt):
        out = []
        for k, n in enumerate(sizes):
            X = (np.sin(np.arange(n * NF) * 0.41 + salt + k) * 1.5).reshape(n, NF).astype(np.float32)
            y = (X[:, 0] * (k + 1.0)).astype(np.float32)
            out.append((sg.Tensor(X), sg.Tensor(y)))
        return out
    sg.manual_seed(3)
    model = nn.Linear(NF, 1)
    losses = []; steps = [0]
    class Crit(nn.MSELoss):
        def __call__(s, yp, yt):
            r = super().__call__(yp, yt); losses.append((model.training, float(np.asarray(r.data)))); return r
    class Opt(sg.optim.SGD):
        def step(s): steps[0] += 1; return super().step()
    tr = TR.Trainer(model, sg); tr.compile(Crit(), Opt(model.parameters(), lr=0.05), None)
    try:
        hist = tr.fit(mk(sizes_t, 1), epochs, mk(sizes_v, 2) if sizes_v else None)
    except Exception as e:
        v("fit-raised", f"loaders given as lists of batches of sizes {sizes_t} / {sizes_v}: {type(e).__name__}: {str(e)[:100]}")
        return {"nontrivial": True, "outcome": "raise", "violations": viol}
    finally:
        harness.reset_modes(verify=False)
    if steps[0] != epochs * len(sizes_t): v("step-count", f"{steps[0]} optimizer steps for {epochs} epochs x {len(sizes_t)} batches of sizes {sizes_t}")
    per = len(sizes_t) + len(sizes_v or [])
    for ep in range(epochs):
        chunk = losses[ep * per: (ep + 1) * per]
        tl = [l for trn, l in chunk[: len(sizes_t)]]; vl = [l for trn, l in chunk[len(sizes_t):]]
        if len(hist.get("loss", [])) > ep and tl and abs(float(hist["loss"][ep]) - float(np.mean(tl))) > 1e-5 * max(1.0, abs(np.mean(tl))):
            v("epoch-loss-not-mean", f"batches of sizes {sizes_t}: epoch {ep} reported loss {hist['loss'][ep]}, mean of the batch losses {np.mean(tl)}")
        if sizes_v and len(hist.get("val_loss", [])) > ep and abs(float(hist["val_loss"][ep]) - float(np.mean(vl))) > 1e-5 * max(1.0, abs(np.mean(vl))):
            v("epoch-loss-not-mean", f"validation batches of sizes {sizes_v}: epoch {ep} reported val_loss {hist['val_loss'][ep]}, mean {np.mean(vl)}")
    return {"nontrivial": True, "outcome": "ok", "violations": viol, "events": len(losses)}

def judge_evaluator(case):
    """Evaluator alone: every output vector of length <= 3 over a score alphabet that includes values outside [0,1] (a model that
    emits raw scores), exactly 0.5, and for the vector modes every arg-max pattern incl. ties; step() over 1-2 batches then
    compute(): accuracy == fraction of samples whose predicted label (score > 0.5, resp. first arg-max) equals the label"""
    sg = harness.load()
    from synapgrad.nn.utils import train as TR
    viol = []
    def v(sym, detail):
        if all(x["kind"] != sym for x in viol): viol.append({"kind": sym, "detail": detail})
    mode, batches = case["mode"], case["batches"]
    ev = TR.Evaluator(mode=mode)
    tot = 0; good = 0
    try:
        for outs, labs in batches:
            o = np.array(outs, dtype=np.float32); l = np.array(labs)
            if mode == "binary":
                pred = (o > 0.5).astype(int); truth = l.astype(int)
                ot = sg.Tensor(o.reshape(-1, 1)); lt = sg.Tensor(l.astype(np.float32))
            elif mode == "multi-class":
                pred = np.argmax(o, 1); truth = l.astype(int); ot = sg.Tensor(o); lt = sg.Tensor(l.astype(np.int64))
            else:
                pred = np.argmax(o, 1); truth = np.argmax(l, 1); ot = sg.Tensor(o); lt = sg.Tensor(l.astype(np.float32))
            m = dict(ev.step(lt, ot))
            exp = float(np.mean(pred == truth))
            if abs(float(m.get("accuracy", -1)) - exp) > 1e-9:
                v("accuracy", f"mode {mode}: step accuracy {m.get('accuracy')} for outputs {outs} labels {labs}, fraction correct {exp}")
            tot += len(pred); good += int(np.sum(pred == truth))
        m = dict(ev.compute())
        if abs(float(m.get("accuracy", -1)) - good / tot) > 1e-9:
            v("accuracy", f"mode {mode}: compute() accuracy {m.get('accuracy')} over {batches}, fraction correct {good / tot}")
        m2 = ev.compute() if False else None
    except harness.HarnessError:
        raise
    except Exception as e:
        v("evaluator-raised", f"mode {mode} {batches}: {type(e).__name__}: {str(e)[:80]}")
    return {"nontrivial": True, "outcome": "ok", "violations": viol, "events": len(batches)}

def evaluator_cases():
    out = []
    scores = [-1.0, 0.2, 0.5, 0.7, 1.6, 2.0]
    for n in (2, 3):
        for outs in itertools.product(scores, repeat=n):
            if n == 3 and (outs[0] > outs[1] or len(set(outs)) < 2): continue
            for labs in itertools.product((0, 1), repeat=n):
                if n == 3 and labs not in ((0, 1, 0), (1, 1, 0), (1, 0, 1)): continue
                out.append({"evaluator_case": True, "mode": "binary", "batches": [[list(outs), list(labs)]]})
    out.append({"evaluator_case": True, "mode": "binary", "batches": [[[2.0, -1.0, 0.7], [1, 0, 1]], [[0.2, 1.6], [0, 1]]]})
    rows = [[0.1, 0.7, 0.2], [2.0, -1.0, 0.5], [0.3, 0.3, 0.3], [-2.0, -0.5, -0.5], [5.0, 5.0, 1.0]]
    for r1, r2 in itertools.product(rows, repeat=2):
        for l1, l2 in itertools.product(range(3), repeat=2):
            out.append({"evaluator_case": True, "mode": "multi-class", "batches": [[[r1, r2], [l1, l2]]]})
            out.append({"evaluator_case": True, "mode": "categorical", "batches": [[[r1, r2], [np.eye(3)[l1].tolist(), np.eye(3)[l2].tolist()]]]})
    # categorical mode with label vectors that are not exactly 0/1 (label smoothing, mixup): the class of a row is its arg-max
    soft = [[0.05, 0.9, 0.05], [0.4, 0.35, 0.25], [0.1, 0.2, 0.7], [0.9, 0.05, 0.05]]
    for r1, r2 in itertools.product(rows[:3], repeat=2):
        for s1, s2 in itertools.product(soft, repeat=2):
            out.append({"evaluator_case": True, "mode": "categorical", "batches": [[[r1, r2], [s1, s2]]]})
    return out

def judge_zero_metric(case):
    """epochs in which a recorded metric is exactly 0.0 (every prediction wrong: accuracy 0; a model that already fits: loss 0)
    still get their entry: one entry per epoch for the loss and every metric"""
    sg = harness.load(); nn = sg.nn
    from synapgrad.nn.utils import train as TR
    harness.reset_modes(verify=False)
    viol = []
    def v(sym, detail):
        if all(x["kind"] != sym for x in viol): viol.append({"kind": sym, "detail": detail})
    epochs, which, val = case["epochs"], case["which"], case["val"]
    sg.manual_seed(5)
    X = [(np.sin(np.arange(4 * NF) * 0.41 + k) * 1.5).reshape(4, NF).astype(np.float32) for k in range(3)]
    if which == "accuracy":
        model = nn.Linear(NF, 3); crit = nn.CrossEntropyLoss(); ev = TR.Evaluator(mode="multi-class")
        with sg.no_grad(): labs = [((np.argmax(np.asarray(model(sg.Tensor(x)).data), 1) + 1) % 3).astype(np.int64) for x in X]
    else:
        model = nn.Linear(NF, 1); crit = nn.MSELoss(); ev = None
        with sg.no_grad(): labs = [np.asarray(model(sg.Tensor(x)).data).reshape(-1).astype(np.float32) for x in X]
    loader = [(sg.Tensor(x), sg.Tensor(l)) for x, l in zip(X, labs)]
    tr = TR.Trainer(model, sg); tr.compile(crit, sg.optim.SGD(model.parameters(), lr=0.0), ev)
    try:
        hist = tr.fit(loader, epochs, loader[:2] if val else None)
    except Exception as e:
        v("fit-raised", f"{type(e).__name__}: {str(e)[:100]}")
        return {"nontrivial": True, "outcome": "raise", "violations": viol}
    finally:
        harness.reset_modes(verify=False)
    keys = {"loss"} | ({"accuracy"} if ev else set())
    if val: keys |= {"val_" + k for k in keys}
    if set(hist.keys()) != keys:
        v("history-keys", f"{which} is exactly 0.0 in every epoch: history keys {sorted(hist.keys())}, expected {sorted(keys)}")
    for k in keys & set(hist.keys()):
        if len(hist[k]) != epochs: v("history-length", f"{which} is exactly 0.0 in every epoch: history[{k!r}] has {len(hist[k])} entries for {epochs} epochs")
    zero_keys = [k for k in keys if k.endswith(which)]
    for k in zero_keys:
        if k in hist and any(abs(float(x)) > 1e-12 for x in hist[k]): v("history-value", f"history[{k!r}] = {list(hist[k])}, expected zeros")
    return {"nontrivial": True, "outcome": "ok", "violations": viol, "events": epochs}

def uneven_cases():
    out = []
    for st in ([4, 2, 3], [1, 5], [3], [2, 2, 2, 7]):
        for sv in (None, [3, 1], [2, 6, 1]):
            for ep in (1, 2):
                out.append({"uneven": True, "train_sizes": st, "val_sizes": sv, "epochs": ep})
    return out

def dispatch(case):
    if case.get("evaluator_case"): return judge_evaluator(case)
    if case.get("zero_metric"): return judge_zero_metric(case)
    return judge_uneven(case) if case.get("uneven") else judge(case)

def replay(case):
    with harness.quiet():
        return dispatch(case)["violations"]

def run(tier, seed):
    cases = all_cases(tier)
    harness.load()
    import synapgrad.nn.utils.train      # import (sklearn, matplotlib) once, before forking
    r = engine.run_cases(cases, dispatch)
    ntrans = sum(c["epochs"] * (c["train_batches"] * 5 + (c["val_batches"] or 0) * 2) for c in cases if not c.get("uneven") and not c.get("evaluator_case") and not c.get("zero_metric")) \
             + sum(c["epochs"] * (len(c["train_sizes"]) * 5 + len(c["val_sizes"] or []) * 2) for c in cases if c.get("uneven"))
    cov = {"states": r["evaluations"], "transitions": ntrans, "traces_validated_against_impl": r["evaluations"],
           "evaluations": r["evaluations"], "distinct_nontrivial": r["distinct_nontrivial"], "samples": r["samples"], "exhaustive": True,
           "rule": "epochs {0,1,2,3} x train batches {1,2,3} x validation loader {None,1,2 batches} x evaluator {None, binary, multi-class, "
                   "categorical, multi-class with user epoch/step callbacks} (matching head/loss) x callbacks {none, both, both and leaving the model in the opposite mode, both and reading one batch of the loader they are handed} x initial model mode {train, eval, train with BatchNorm switched to eval, eval with Dropout switched to train, train with the BatchNorm statistics frozen after construction, train with the first layer frozen}; model = Linear+BatchNorm1d+"
                   "Dropout+Linear; every optimizer.zero_grad/step, model.forward, criterion and backward call is recorded with model.training "
                   "(all submodules) and the probed grad mode and matched against the automaton (forward, loss, zero_grad, backward, step)* "
                   "per batch, eval/no-grad/no-state-change validation, history keys and lengths, epoch loss = mean of batch losses, accuracy "
                   "recomputed per label mode; test() in both outer grad modes; a second fit() on the same Trainer (1 epoch, no validation loader) has its own history; plus 12 runs whose accuracy / loss is exactly 0.0 in every epoch (entries still recorded); plus the Evaluator alone over every score vector of length <= 3 from {-1,.2,.5,.7,1.6,2} (binary) and arg-max patterns incl. ties (vector modes); plus 24 runs with user-supplied loaders (lists of batches of unequal sizes): one step per batch, epoch loss = mean of the per-batch losses; states = runs, transitions = monitored calls; non-trivial = epochs >= 1"}
    return {"level": "model_checking", "violations": r["violations"], "coverage": cov,
            "assumptions": ["loaders with zero batches are left out (the statement's counts are vacuous there)", "batch size 4; lr 0.05; SGD"]}
