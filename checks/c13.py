"""C13 - Dropout and BatchNorm honour train/eval mode over any call history.

Dropout: every history over {train, eval, forward(answer vector)} where a training forward branches
over EVERY keep/drop answer vector of the scripted random source (and the measure-zero boundary
u == p, where either outcome is accepted).  BatchNorm1d/2d: every history over {train, eval,
forward(A), forward(B)} x every constructor option, in lock-step with torch.nn.BatchNorm (float64):
outputs, running mean / variance and the batch counter after every event."""
import itertools, json
import numpy as np
from mc import harness, engine, randsrc

X3 = np.array([1.5, -2.0, 0.75])
G3 = np.array([0.5, -1.0, 2.0])

# ----------------------------------------------------------------------------- dropout
def dropout_events():
    # P: the user re-assigns layer.p (alternates between p and ALT_P[p]); Fn / Fm: draws just below and above the thresholds p, 1-p
    return ["T", "E", "Fb", "P", "Fn", "Fm"] + [f"F{m}" for m in range(8)]

ALT_P = {0.0: 0.5, 0.3: 0.75, 0.5: 0.2, 0.75: 0.3, 1.0: 0.5}

HOSTED_EVENTS = ["T", "E", "cT", "cE", "F5", "F2", "Fb"]

def run_dropout(p, hist, host="bare"):
    """The statement fixes the distribution (each element dropped independently with probability p, survivors scaled by exactly
    1/(1-p), same mask in backward), not how a uniform draw u is turned into the decision: `u > p` keeps (convention A) and
    `u < 1-p` keeps (convention B) are both right.  The scripted answers are a = min(p,1-p)/2 and c = (max(p,1-p)+1)/2: A keeps
    exactly the c-elements, B exactly the a-elements, so all 8 keep/drop vectors occur under either; the layer may follow either
    convention but the same one in every call of a history."""
    sg = harness.load()
    L = sg.nn.Dropout(p)
    # host: the layer is called directly, or through a container it is a stage of; the container's own mode is switched by cT / cE
    # (which reach the layer), the layer's own by T / E (Monte-Carlo dropout: container in eval mode, the layer switched back to
    # train).  What the layer does depends on ITS mode only.
    S = {"bare": lambda: L, "seq": lambda: sg.nn.Sequential(L), "nested": lambda: sg.nn.Sequential(sg.nn.Sequential(L))}[host]()
    training = True
    viols = []
    conv = None
    pending = []          # (x, y, keep, p at that time, prefix): differentiated only after the whole history ran
    p0 = p
    for i, e in enumerate(hist):
        prefix = hist[: i + 1]
        def v(kind, detail): viols.append((kind, detail, prefix))
        if e == "T": L.train(); training = True
        elif e == "E": L.eval(); training = False
        elif e == "cT": S.train(); training = True
        elif e == "cE": S.eval(); training = False
        elif e == "P":
            p = ALT_P[p0] if p == p0 else p0          # the drop probability is an attribute of the layer: the current value counts
            L.p = p; conv = None
        else:
            if e == "Fb": bits, u = None, [p, p, p]
            elif e in ("Fn", "Fm"):
                # draws 2^-10 below / above the threshold (p for `u > p`, 1-p for `u < 1-p`): the drop probability is p itself,
                # not p rounded to some coarser grid
                th = p if e == "Fn" else 1 - p
                eps = 2.0 ** -10
                u = [min(max(th - eps, 2.0 ** -20), 1 - 2.0 ** -20), min(max(th + eps, 2.0 ** -20), 1 - 2.0 ** -20), min(max(th - eps, 2.0 ** -20), 1 - 2.0 ** -20)]
                bits = "rule"
            else:
                m = int(e[1:]); bits = [(m >> j) & 1 for j in range(3)]
                a, c = min(p, 1 - p) / 2, (max(p, 1 - p) + 1) / 2
                u = [(c if k else a) if 0 < p < 1 else (0.25 + 0.5 * k) for k in bits]
            x = sg.Tensor(X3.copy(), requires_grad=(i % 2 == 0))     # every other forward gets plain data: the mask applies all the same
            with randsrc.controlled(u=u) as src:
                try:
                    y = S(x)
                except Exception as ex:
                    v("dropout:raised", f"{type(ex).__name__}: {ex}"); return viols, i + 1
                draws = src.n_u
            yd = np.asarray(y.data, dtype=np.float64)
            if not training:
                if not np.array_equal(yd, X3): v("dropout:eval-not-identity", f"eval output {yd} for input {X3}")
                if draws: v("dropout:eval-consumes-randomness", f"{draws} random draws in eval mode")
            else:
                if draws != X3.size: v("dropout:draws", f"{draws} draws for {X3.size} elements")
                if bits is not None:
                    if p == 0: cands = {"A": [1, 1, 1], "B": [1, 1, 1]}
                    elif p == 1: cands = {"A": [0, 0, 0], "B": [0, 0, 0]}
                    elif bits == "rule": cands = {"A": [int(x > p) for x in u], "B": [int(x < 1 - p) for x in u]}
                    else: cands = {"A": bits, "B": [1 - b for b in bits]}
                    exps = {k: (X3 * np.array(kp) / (1 - p) if p < 1 else np.zeros(3)) for k, kp in cands.items()}
                    ok = {k for k, ex_ in exps.items() if np.all(np.isfinite(yd)) and np.allclose(yd, ex_, rtol=1e-14, atol=0)}
                    if conv is not None and conv in ok: ok = {conv}
                    elif conv is not None: ok = set()
                    if not ok:
                        v("dropout:training-output", f"p={p} answers u={u}: output {yd}; expected x*keep/(1-p) with keep = [u>p] {exps['A']} or keep = [u<1-p] {exps['B']}"
                          + (f" (earlier calls of this history followed convention {conv})" if conv else ""))
                    else:
                        if len(ok) == 1 and 0 < p < 1: conv = next(iter(ok))
                        keep = cands[sorted(ok)[0]]
                        x2 = sg.Tensor(X3.copy(), requires_grad=True)
                        with randsrc.controlled(u=u):
                            y2 = S(x2)
                        pending.append((x2, y2, keep, p, prefix))
                        try:
                            if not x.requires_grad: raise StopIteration
                            y.backward(sg.Tensor(G3.copy()))
                            gexp = G3 * np.array(keep) / (1 - p) if p < 1 else np.zeros(3)
                            gd = np.asarray(x.grad.data, dtype=np.float64)
                            if not np.allclose(gd, gexp, rtol=1e-14, atol=0):
                                v("dropout:backward-mask", f"p={p} answers u={u}: gradient {gd}, expected g*mask/(1-p) = {gexp}")
                        except StopIteration:
                            pass
                        except Exception as ex:
                            v("dropout:backward-raised", f"{type(ex).__name__}: {ex}")
                else:
                    # boundary u == p: each element independently either dropped or kept-and-scaled
                    for j in range(3):
                        ok = [0.0] + ([X3[j] / (1 - p)] if p < 1 else [])
                        if not any(np.isclose(yd[j], o, rtol=1e-14, atol=0) for o in ok):
                            v("dropout:training-output", f"boundary u=p={p}: element {j} = {yd[j]}")
        if viols: return viols, i + 1
    for (x2, y2, keep, p, prefix) in pending:
        try:
            y2.backward(sg.Tensor(G3.copy()))
            gexp = G3 * np.array(keep) / (1 - p) if p < 1 else np.zeros(3)
            gd = np.asarray(x2.grad.data, dtype=np.float64)
            if not np.allclose(gd, gexp, rtol=1e-14, atol=0):
                viols.append(("dropout:delayed-backward-mask", f"p={p}: the forward issued after {prefix} is differentiated after the whole history {hist}: gradient {gd}, "
                              f"expected g * (the mask of that forward) / (1-p) = {gexp} (a later call of the layer disturbed the mask)", list(hist)))
                break
        except Exception as ex:
            viols.append(("dropout:backward-raised", f"{type(ex).__name__}: {ex}", list(hist))); break
    return viols, len(hist)

# ----------------------------------------------------------------------------- batch norm
def bn_configs():
    out = []
    for mom in (0.1, 0.5, 1.0, 0.0, None):
        for affine in (True, False):
            for track in (True, False):
                for rank in (2, 3, 4):
                    out.append({"momentum": mom, "affine": affine, "track": track, "rank": rank, "eps": 0.1 if (rank == 3 or (rank == 4 and affine) or (rank == 2 and not affine and not track)) else 1e-5})
    return out

def bn_batches(rank):
    C = 2
    def mk(N, salt):
        shape = (N, C) + {2: (), 3: (3,), 4: (2, 2)}[rank]
        n = int(np.prod(shape))
        return (np.sin(np.arange(n) * 1.7 + salt) * 2.0 + 0.3 * salt).reshape(shape)
    return {"A": mk(2, 1.0), "B": mk(3, 2.0), "C": mk(1, 3.0)}     # C: one sample (used for rank >= 3, where a channel still has > 1 value)

def run_bn(cfg, hist):
    sg = harness.load(); t = harness.torch()
    C = 2; rank = cfg["rank"]
    dt = np.dtype(cfg.get("dtype", "float64")); tdt = t.float64 if dt == np.float64 else t.float32
    rt, at = (1e-9, 1e-10) if dt == np.float64 else (2e-5, 2e-6)
    cls = sg.nn.BatchNorm2d if rank == 4 else sg.nn.BatchNorm1d
    tcls = t.nn.BatchNorm2d if rank == 4 else t.nn.BatchNorm1d
    L = cls(C, eps=cfg["eps"], momentum=cfg["momentum"], affine=cfg["affine"], track_running_stats=cfg["track"], dtype=dt.type)
    R = tcls(C, eps=cfg["eps"], momentum=cfg["momentum"], affine=cfg["affine"], track_running_stats=cfg["track"], dtype=tdt)
    has_affine = getattr(L, "weight", None) is not None and getattr(L, "bias", None) is not None
    if has_affine != bool(cfg["affine"]) or (getattr(L, "running_mean", None) is not None) != bool(cfg["track"]):
        return [("batchnorm:constructor-options", f"cfg {cfg}: the layer has {'' if has_affine else 'no '}scale/shift parameters and "
                 f"{'' if getattr(L, 'running_mean', None) is not None else 'no '}running statistics", [])], 0
    if cfg["affine"]:
        gam, bet = np.array([1.5, -0.5]), np.array([0.25, 2.0])
        L.weight.data = gam.astype(dt); L.bias.data = bet.astype(dt)
        with t.no_grad():
            R.weight.copy_(t.from_numpy(gam.astype(dt))); R.bias.copy_(t.from_numpy(bet.astype(dt)))
    batches = bn_batches(rank)
    viols = []
    pending = []
    def buffers():
        if L.running_mean is None: return None
        return np.asarray(L.running_mean.data, dtype=np.float64).copy(), np.asarray(L.running_var.data, dtype=np.float64).copy()
    for i, e in enumerate(hist):
        prefix = hist[: i + 1]
        def v(kind, detail): viols.append((kind, detail, prefix))
        before = buffers(); nb_before = L.num_batches_tracked
        try:
            if e == "T": L.train(); R.train()
            elif e == "E": L.eval(); R.eval()
            elif e == "K":
                # the user flips layer.track_running_stats after construction (freezing the statistics for fine-tuning): the
                # buffers stay, eval keeps normalising with them, training forwards stop updating them
                L.track_running_stats = not L.track_running_stats; R.track_running_stats = not R.track_running_stats
            else:
                xb = batches[e].astype(dt)
                # A: input requires grad; B: plain input (with affine=False the output is untracked); C: forward under no_grad -
                # what a training forward does to the running statistics does not depend on whether a graph is recorded
                xt = sg.Tensor(xb.copy(), requires_grad=(e != "B"))
                if e == "C":
                    with sg.no_grad(): y = L(xt)
                else:
                    y = L(xt)
                use_running = (not L.training) and cfg["track"]
                if y.requires_grad:
                    pending.append((xt, y, xb, use_running, None if not use_running else np.asarray(L.running_var.data, dtype=np.float64).copy(), prefix))
                if y.dtype != dt: v("batchnorm:output-dtype", f"cfg {cfg} after {prefix}: {dt} input gives {y.dtype} output")
                with t.no_grad():
                    yr = R(t.from_numpy(xb.copy())).numpy()
                yd = np.asarray(y.data, dtype=np.float64)
                if yd.shape != yr.shape or not np.allclose(yd, yr, rtol=rt, atol=at):
                    mode = "training" if L.training else "eval"
                    v(f"batchnorm:{mode}-output", f"cfg {cfg} after {prefix}: max abs diff {np.max(np.abs(yd - yr)):.3g}")
                if not L.training:
                    y2 = np.asarray(L(sg.Tensor(xb.copy())).data, dtype=np.float64)
                    if not np.array_equal(y2, yd): v("batchnorm:eval-not-deterministic", f"two eval calls on the same input differ after {prefix}")
        except Exception as ex:
            v("batchnorm:raised", f"{type(ex).__name__}: {str(ex)[:80]}"); return viols, i + 1
        after = buffers()
        if cfg["track"]:
            rm, rv = R.running_mean.numpy(), R.running_var.numpy()
            if after is None:
                v("batchnorm:buffers-missing", "running statistics are None although tracked")
            else:
                if L.running_mean.dtype != dt or L.running_var.dtype != dt:
                    v("batchnorm:buffer-dtype", f"cfg {cfg} after {prefix}: buffers are {L.running_mean.dtype}/{L.running_var.dtype}, layer dtype {dt}")
                if not np.allclose(after[0], rm, rtol=rt, atol=at):
                    v("batchnorm:running_mean", f"cfg {cfg} after {prefix}: {after[0]} vs reference {rm}")
                if not np.allclose(after[1], rv, rtol=rt, atol=at):
                    v("batchnorm:running_var", f"cfg {cfg} after {prefix}: {after[1]} vs reference {rv}")
                changed = not (np.array_equal(after[0], before[0]) and np.array_equal(after[1], before[1]))
                if (e in "TEK" or not L.training) and changed:
                    v("batchnorm:buffers-changed-outside-training-forward", f"after {prefix}")
            exp_nb = int(R.num_batches_tracked)
            if L.num_batches_tracked is not None and int(L.num_batches_tracked) != exp_nb:
                v("batchnorm:num_batches_tracked", f"{L.num_batches_tracked} vs reference {exp_nb} after {prefix}")
        elif after is not None:
            v("batchnorm:buffers-present-without-tracking", f"after {prefix}")
        if viols: return viols, i + 1
    # delayed backward: every forward of the history is differentiated only now, after all later calls have run -
    # what a forward saved for its backward must not be disturbed by later forwards of the same layer
    TF = t.nn.functional
    for (xt, y, xb, use_running, rv_snap, prefix) in pending:
        g = np.cos(np.arange(xb.size) * 0.9 + 0.3).reshape(xb.shape).astype(dt)
        try:
            y.backward(sg.Tensor(g.copy()))
        except Exception as ex:
            viols.append(("batchnorm:delayed-backward-raised", f"{type(ex).__name__}: {str(ex)[:80]}", prefix)); break
        shp = (1, C) + (1,) * (xb.ndim - 2)
        gam = np.array([1.5, -0.5]).reshape(shp) if cfg["affine"] else 1.0
        if use_running:
            exp = g.astype(np.float64) * gam / np.sqrt(rv_snap.reshape(shp) + cfg["eps"])
        else:
            xr = t.tensor(xb.astype(np.float64), requires_grad=True)
            w = t.tensor([1.5, -0.5], dtype=t.float64) if cfg["affine"] else None
            b = t.tensor([0.25, 2.0], dtype=t.float64) if cfg["affine"] else None
            TF.batch_norm(xr, None, None, w, b, training=True, eps=cfg["eps"]).backward(t.from_numpy(g.astype(np.float64)))
            exp = xr.grad.numpy()
        if not xt.requires_grad:
            continue
        got = np.asarray(xt.grad.data, dtype=np.float64)
        tol = (1e-8, 1e-9) if dt == np.float64 else (2e-4, 2e-5)
        if got.shape != exp.shape or not np.allclose(got, exp, rtol=tol[0], atol=tol[1]):
            viols.append(("batchnorm:delayed-backward", f"cfg {cfg}: the input gradient of the forward issued after {prefix}, taken after the whole history "
                          f"{hist}, is off by {np.max(np.abs(got - exp)):.3g} (later calls disturbed what that forward saved)", list(hist)))
            break
    return viols, len(hist)

# ----------------------------------------------------------------------------- driver
def judge(case):
    if case["kind"] == "dropout":
        vs, n = run_dropout(case["p"], case["history"], case.get("host", "bare"))
    else:
        vs, n = run_bn(case["cfg"], case["history"])
    viol = [{"kind": k, "detail": d + " [shortest violating prefix " + json.dumps(list(pre)) + "]"} for k, d, pre in vs]
    h = case["history"]
    nt = any(e not in ("T", "E", "cT", "cE") for e in h) and any(e in ("T", "E", "cT", "cE") for e in h)
    return {"nontrivial": nt, "outcome": "ok" if not vs else "violation", "violations": viol}

def replay(case):
    with harness.quiet():
        return judge(case)["violations"]

def run(tier, seed):
    dd, bd = (3, 4) if tier == "quick" else (4, 6)
    cases = []
    for p in (0.0, 0.3, 0.5, 0.75, 1.0):
        for h in itertools.product(dropout_events(), repeat=dd):
            cases.append({"kind": "dropout", "p": p, "history": list(h)})
    for host in ("seq", "nested"):
        for p in (0.5, 0.3):
            for h in itertools.product(HOSTED_EVENTS, repeat=dd + 1):
                if any(e[0] == "c" for e in h): cases.append({"kind": "dropout", "p": p, "host": host, "history": list(h)})
    cfgs = bn_configs()
    for c in cfgs:
        ev = "TEAB" if c["rank"] == 2 else "TEABC"
        for h in itertools.product(ev, repeat=bd if c["rank"] == 2 else bd - 1):
            cases.append({"kind": "batchnorm", "cfg": c, "history": list(h)})
        if c["track"] and c["eps"] != 0.1:
            for h in itertools.product("TEABK", repeat=bd - 1):
                if "K" in h: cases.append({"kind": "batchnorm", "cfg": c, "history": list(h)})
        for h in itertools.product("TEAB", repeat=bd - 1):          # float32 layers: values, and dtype of outputs and buffers
            cases.append({"kind": "batchnorm", "cfg": dict(c, dtype="float32"), "history": list(h)})
    r = engine.run_cases(cases, judge)
    best = {}
    for v in r["violations"]:
        pre = json.loads(v["detail"].rsplit("[shortest violating prefix ", 1)[-1][:-1])
        key = (v["kind"], harness.digest(v["case"].get("cfg", [v["case"].get("p"), v["case"].get("host")])))
        if key not in best or len(pre) < len(best[key][0]):
            c = dict(v["case"]); c["history"] = pre
            best[key] = (pre, {"kind": v["kind"], "detail": v["detail"], "case": c})
    nd = 4 * (11 ** (dd + 1) - 1) // 10; nb = len(cfgs) * ((4 ** (bd + 1) - 1) // 3 + (4 ** bd - 1) // 3)
    cov = {"states": nd + nb, "transitions": nd + nb - 4 - len(cfgs), "traces_validated_against_impl": r["evaluations"],
           "evaluations": r["evaluations"], "distinct_nontrivial": r["distinct_nontrivial"], "samples": r["samples"], "exhaustive": True,
           "rule": f"Dropout p in {{0,.3,.5,.75,1}} x ALL {len(dropout_events()) ** dd} histories of length {dd} over {{train, eval, re-assign layer.p, forward with each of the 8 "
                   f"keep/drop answer vectors, forward at the boundary u=p}}; the layer as a stage of a Sequential / a nested Sequential (p in {{.5,.3}}): all histories of length {dd + 1} over {{layer.train, layer.eval, container.train, container.eval, 3 forwards through the container}} that switch the container at least once; BatchNorm: {len(cfgs)} configurations (momentum {{.1,.5,1,0,None}} x "
                   f"affine x track_running_stats x input rank 2/3/4) x ALL {4 ** bd} histories of length {bd} over {{train, eval, forward(A: 2 "
                   "samples, input requires grad), forward(B: 3 samples, plain input), for rank >= 3 also forward(C: 1 sample, under no_grad) with histories one shorter}} in lock-step with torch.nn.BatchNorm1d/2d (float64; float32 layers one level shallower, "
                   "incl. dtype of outputs and buffers): output, running_mean, "
                   "running_var, num_batches_tracked after every event; after the history every forward is back-propagated (delayed backward) "
                   "and its input gradient compared with the closed form / torch autograd; states = (configuration, history prefix) pairs"}
    return {"level": "model_checking", "violations": [b[1] for b in best.values()], "coverage": cov,
            "assumptions": ["NumPy's generator distribution is trusted; each element must be a function of its own draw; the draw-to-decision rule may be u > p or u < 1-p (same rule throughout a history)",
                            "torch.nn.BatchNorm (float64) is the documented exponential / cumulative moving-average rule"]}
