"""C08 - optimizers follow the published SGD/Adam/AdamW update rules on any history.

For every constructor-accepted hyper-parameter configuration of a small lattice, EVERY history over
{backward(L1), backward(L2), zero_grad, step} up to the depth bound is executed on the real
optimizer in lock-step with (a) the update rules transcribed from the PyTorch algorithm boxes
(float64 NumPy) and (b) torch.optim itself; (a) vs (b) disagreeing is a harness error."""
import itertools
import numpy as np
from mc import harness, engine

LR = 0.1
LRS = {"quick": (0.1,), "thorough": (0.1, 0.01)}
A1 = np.array([0.7, -1.3]); B2 = np.array([[0.5, -1.0], [2.0, 0.25]]); D1 = np.array([-0.4, 0.9])
INIT = {"w1": np.array([1.5, -0.5]), "w2": np.array([[0.75, -2.0], [1.25, 0.5]]), "w3": np.array([0.3, -0.8]), "w4": np.array([2.0, -1.0]),
        "w5": np.array(0.8)}
DT = {"w1": np.float64, "w2": np.float32, "w3": np.float64, "w4": np.float64, "w5": np.float64}
OPT_PARAMS = ["w1", "w2", "w3", "w5"]    # w3 is frozen, w4 is never given to the optimizer, w5 is a 0-d (scalar) parameter
TRAINED = ("w1", "w2", "w5", "w3")    # w3 counts only after it has been unfrozen (event U)
EVENTS = "BbzSU"     # U = unfreeze w3 (a parameter that was frozen when the optimizer was built)

def configs():
    out = []
    for mom, damp, nest in [(0, 0, False), (0, 0.5, False), (0.9, 0, False), (0.9, 0, True), (0.9, 0.5, False)]:
        for wd in (0, 0.1):
            for mx in (False, True):
                out.append({"opt": "SGD", "momentum": mom, "dampening": damp, "nesterov": nest, "weight_decay": wd, "maximize": mx})
    for name in ("Adam", "AdamW"):
        for wd in (0, 0.1):
            for mx in (False, True):
                for betas in ((0.9, 0.999), (0.5, 0.9), (0.0, 0.5)):
                    for eps in (1e-8, 1e-3):
                        out.append({"opt": name, "weight_decay": wd, "maximize": mx, "betas": list(betas), "eps": eps})
    out.append({"opt": "SGD", "momentum": 0.9, "dampening": 0.5, "nesterov": False, "weight_decay": 0.1, "maximize": False, "np_scalars": True})
    out.append({"opt": "SGD", "momentum": 0.9, "dampening": 0.0, "nesterov": True, "weight_decay": 0.1, "maximize": True, "np_scalars": True})
    for name in ("Adam", "AdamW"):
        out.append({"opt": name, "weight_decay": 0.1, "maximize": False, "betas": [0.5, 0.9], "eps": 1e-3, "np_scalars": True})
    return out

def grads(vals, which):
    """closed-form gradients of the two losses at the current parameter values
    L1 = sum(b*w2) + 0.5*sum(w2*w2) + sum(w3*d);      (does NOT involve w1: until the first backward(L2) the FIRST parameter
    L2 = sum(a*w1*w1) + sum(d*w1) + 0.5*sum(w2*w2) + sum(w4*w4)    of the optimizer has no gradient and must be skipped)"""
    w1, w2, w3, w4, w5 = (np.asarray(vals[k], dtype=np.float64) for k in ("w1", "w2", "w3", "w4", "w5"))
    if which == "B":
        return {"w1": None, "w2": B2 + w2, "w3": D1.copy(), "w4": None, "w5": np.asarray(1.3)}
    return {"w1": 2 * A1 * w1 + D1, "w2": w2.copy(), "w3": None, "w4": 2 * w4, "w5": np.asarray(1.4 * w5)}

class RefOpt:
    """update rules as printed in the PyTorch docs (SGD / Adam / AdamW algorithm boxes), per-parameter state"""
    def __init__(self, cfg):
        self.cfg = cfg
    FRESH = {"t": 0, "buf": None, "m": 0.0, "v": 0.0}
    def candidate(self, st, p, g):
        """-> (new value, new state) for one parameter in state st with gradient g"""
        c = self.cfg; st = dict(st)
        p = np.asarray(p, dtype=np.float64); g = np.asarray(g, dtype=np.float64)
        if c["maximize"]: g = -g
        if c["opt"] == "SGD":
            if c["weight_decay"]: g = g + c["weight_decay"] * p
            if c["momentum"]:
                st["buf"] = g.copy() if st["buf"] is None else c["momentum"] * st["buf"] + (1 - c["dampening"]) * g
                g = g + c["momentum"] * st["buf"] if c["nesterov"] else st["buf"]
            return p - c.get("lr", LR) * g, st
        b1, b2 = c["betas"]; st["t"] += 1; t = st["t"]
        lr = c.get("lr", LR)
        if c["opt"] == "AdamW": p = p - lr * c["weight_decay"] * p
        elif c["weight_decay"]: g = g + c["weight_decay"] * p
        st["m"] = b1 * st["m"] + (1 - b1) * g
        st["v"] = b2 * st["v"] + (1 - b2) * g * g
        mh = st["m"] / (1 - b1 ** t); vh = st["v"] / (1 - b2 ** t)
        return p - lr * mh / (np.sqrt(vh) + c["eps"]), st

def make_lib(cfg):
    sg = harness.load()
    P = {k: sg.nn.Parameter(sg.Tensor(INIT[k].astype(DT[k]), requires_grad=True)) for k in INIT}
    P["w3"].requires_grad = False
    plist = [P[k] for k in OPT_PARAMS]
    kw = {k: (tuple(v) if k == "betas" else v) for k, v in cfg.items() if k not in ("opt", "lr", "np_scalars")}
    lr = cfg.get("lr", LR)
    if cfg.get("np_scalars"):
        # hyper-parameters handed over as NumPy float64 scalars (read from a config array): values identical, and the
        # float32 parameter must stay float32
        lr = np.float64(lr)
        kw = {k: (tuple(np.float64(x) for x in v) if k == "betas" else (np.float64(v) if isinstance(v, float) and not isinstance(v, bool) else v)) for k, v in kw.items()}
    opt = getattr(sg.optim, cfg["opt"])(plist, lr=lr, **kw)
    return sg, P, opt

def make_torch(cfg):
    t = harness.torch()
    TP = {k: t.tensor(INIT[k].astype(DT[k]).astype(np.float64), requires_grad=(k != "w3")) for k in INIT}
    kw = {k: (tuple(v) if k == "betas" else v) for k, v in cfg.items() if k not in ("opt", "lr", "np_scalars")}
    opt = getattr(t.optim, cfg["opt"])([TP[k] for k in OPT_PARAMS], lr=cfg.get("lr", LR), **kw)
    return t, TP, opt

def lib_loss(sg, P, which):
    T = sg.Tensor
    if which == "B":
        return (P["w2"] * T(B2.astype(np.float32))).sum() + (P["w2"] * P["w2"]).sum() * 0.5 + (P["w3"] * T(D1.copy())).sum() + P["w5"] * 1.3
    return ((P["w1"] * P["w1"] * T(A1.copy())).sum() + (P["w1"] * T(D1.copy())).sum() + (P["w2"] * P["w2"]).sum() * 0.5 + (P["w4"] * P["w4"]).sum()
            + P["w5"] * P["w5"] * 0.7)

def tol(name):
    return (3e-6, 3e-6) if DT[name] == np.float32 else (1e-10, 1e-12)

def run_history(cfg, hist):
    """-> (violations [(kind, detail, prefix)], events executed)"""
    sg, P, opt = make_lib(cfg)
    t, TP, topt = make_torch(cfg)
    ref = RefOpt(cfg)
    alts = {k: [dict(RefOpt.FRESH)] for k in TRAINED}   # admissible optimizer states per parameter
    ambiguous = {k: False for k in TRAINED}
    mgrad = {k: None for k in INIT}           # model gradients (None = absent)
    zero_only = set()                          # gradient exists only because zero_grad created it
    ident = {k: (id(P[k]), P[k].dtype, P[k].shape) for k in INIT}
    storage = {k: P[k].data for k in INIT}       # the arrays the model holds: updates are applied in place to THEM
    viols = []
    frozen = {"w3"}
    def cur():
        return {k: np.asarray(P[k].data, dtype=np.float64).copy() for k in INIT}
    for i, e in enumerate(hist):
        prefix = hist[: i + 1]
        def v(kind, detail):
            viols.append((kind, detail, prefix))
        vals = cur()
        before = {k: np.asarray(P[k].data).tobytes() for k in INIT}
        try:
            if e in "Bb":
                lib_loss(sg, P, e).backward()
            elif e == "U":
                P["w3"].requires_grad = True
                frozen.discard("w3"); TP["w3"].requires_grad_(True)
            elif e == "F":
                # a trainable parameter is frozen in mid-training, possibly while it still holds a gradient (and momentum / moments):
                # from here on it "stays fixed even under weight decay" whatever step, zero_grad and backward do around it
                P["w1"].requires_grad = False
                frozen.add("w1")
            elif e == "z":
                opt.zero_grad()
            else:
                opt.step()
        except Exception as ex:
            v("step-raised" if e == "S" else "event-raised", f"{type(ex).__name__}: {str(ex)[:80]}")
            return viols, i + 1
        if e in "Bb":
            g = grads(vals, e)
            for k, gk in g.items():
                if gk is None or k in frozen: continue
                mgrad[k] = gk if mgrad[k] is None else mgrad[k] + gk
                zero_only.discard(k)
                if k != "w4":
                    TP[k].grad = t.from_numpy(np.array(mgrad[k], dtype=np.float64))
        elif e == "z":
            for k in TRAINED:
                if k in frozen: continue
                if mgrad[k] is None: zero_only.add(k)
                else:
                    mgrad[k] = np.zeros_like(mgrad[k]); TP[k].grad = t.zeros_like(TP[k])
        # ---- expected parameter values: per parameter a SET of admissible (value, state) successors
        exp = {k: [(vals[k], None)] for k in INIT}      # default: unchanged
        if e == "S":
            for k in TRAINED:
                if k in frozen: continue
                cands = []
                for st in alts[k]:
                    if mgrad[k] is not None:
                        cands.append(ref.candidate(st, vals[k], mgrad[k]))
                    elif k in zero_only:
                        ambiguous[k] = True
                        cands.append((vals[k], st))                                         # treated as absent: skipped
                        cands.append(ref.candidate(st, vals[k], np.zeros_like(vals[k])))   # treated as g = 0
                    else:
                        cands.append((vals[k], st))
                exp[k] = cands
        got = cur()
        for k in INIT:
            rt, at = tol(k)
            hits = [st for (cand, st) in exp[k] if np.allclose(got[k], cand, rtol=rt, atol=at)]
            if not hits:
                if k in frozen: kind = "frozen-parameter-moved"
                elif k == "w4": kind = "foreign-parameter-moved"
                elif e != "S": kind = "parameter-changed-outside-step"
                else: kind = "wrong-update"
                v(kind, f"{k} after {prefix}: got {got[k].ravel()}, expected {exp[k][-1][0].ravel()} (cfg {cfg})")
                return viols, i + 1
            if e == "S" and k in alts and k not in frozen:
                uniq = {}
                for st in hits:
                    uniq[repr({a: (None if b is None else np.round(np.asarray(b, dtype=np.float64), 12).tolist()) for a, b in st.items()})] = st
                alts[k] = list(uniq.values())
            if (k in frozen or k == "w4") and np.asarray(P[k].data).tobytes() != before[k]:
                v("frozen-parameter-moved" if k in frozen else "foreign-parameter-moved", f"{k} bytes changed after {prefix}")
            if (id(P[k]), P[k].dtype, P[k].shape) != ident[k]:
                v("parameter-identity-dtype-or-shape-changed", f"{k} after {prefix}: dtype {P[k].dtype}, shape {P[k].shape}")
            elif P[k].data is not storage[k] and not np.shares_memory(P[k].data, storage[k]):
                v("parameter-storage-replaced", f"{k} after {prefix}: the parameter's data is a new array - the update was not applied in place "
                  "(a tensor or array sharing the parameter's storage no longer follows it)")
        if viols:
            return viols, i + 1
        # ---- cross-validate the transcribed rules against torch.optim itself (parameters whose history is unambiguous)
        if e == "S":
            with t.no_grad():
                topt.step()
            for k in TRAINED:
                if ambiguous[k] or k in frozen: continue
                tv = TP[k].detach().numpy()
                if not np.allclose(tv, exp[k][0][0], rtol=1e-11, atol=1e-13):
                    raise harness.HarnessError(f"reference update rules disagree with torch.optim for {cfg} after {prefix}: {k} torch {tv.ravel()} model {exp[k][0][0].ravel()}")
        elif e == "z":
            topt.zero_grad(set_to_none=False)
        # resync the references to the observed (possibly float32-rounded) values
        with t.no_grad():
            for k in INIT:
                TP[k].copy_(t.from_numpy(got[k]))
    return viols, len(hist)

def judge(case):
    cfg = case["cfg"]; viol = []; seen = set()
    vs, n = run_history(cfg, case["history"])
    for kind, detail, prefix in vs:
        viol.append({"kind": f"{cfg['opt']}:{kind}", "detail": detail + f" [shortest violating prefix {prefix}]"})
    return {"nontrivial": "S" in case["history"] and ("B" in case["history"] or "b" in case["history"]),
            "outcome": "ok" if not vs else "violation", "violations": viol, "events": n}

def replay(case):
    with harness.quiet():
        return judge(case)["violations"]

def run(tier, seed):
    depth = 4 if tier == "quick" else 6
    cfgs = [dict(c, lr=lr) for c in configs() for lr in LRS[tier]]
    cases = [{"cfg": c, "history": "".join(h)} for c in cfgs for h in itertools.product(EVENTS, repeat=depth)]
    # long runs: one backward, then 80 consecutive steps (bias corrections that saturate, buffers that drift) for every configuration
    cases += [{"cfg": c, "history": "b" + "S" * 40 + "B" + "S" * 40} for c in cfgs]
    # freezing in mid-training: every history of the same length with exactly one F (freeze w1) after at least one backward
    for c in cfgs:
        for h in itertools.product(EVENTS + "F", repeat=depth):
            if h.count("F") == 1 and any(x in "Bb" for x in h[: h.index("F")]) and "S" in h[h.index("F"):]:
                cases.append({"cfg": c, "history": "".join(h)})
    r = engine.run_cases(cases, judge)
    # keep, per (kind, cfg), only the shortest violating prefix
    best = {}
    for v in r["violations"]:
        pre = v["detail"].rsplit("[shortest violating prefix ", 1)[-1].rstrip("]")
        key = (v["kind"], harness.digest(v["case"]["cfg"]))
        if key not in best or len(pre) < len(best[key][0]):
            best[key] = (pre, {"kind": v["kind"], "detail": v["detail"], "case": {"cfg": v["case"]["cfg"], "history": pre,
                                                                                 **{k: v["case"]["cfg"][k] for k in v["case"]["cfg"]}}})
    viols = [b[1] for b in best.values()]
    nstates = len(cfgs) * (5 ** (depth + 1) - 1) // 4
    cov = {"states": nstates, "transitions": nstates - len(cfgs), "traces_validated_against_impl": r["evaluations"],
           "evaluations": r["evaluations"], "distinct_nontrivial": r["distinct_nontrivial"],
           "samples": r["samples"], "exhaustive": True, "depth": depth, "configurations": len(cfgs),
           "rule": f"{len(cfgs)} hyper-parameter configurations (SGD: momentum x dampening x nesterov x weight_decay x maximize, "
                   f"constructor-accepted only; Adam/AdamW: weight_decay x maximize x betas x eps) x ALL {5 ** depth} histories of "
                   f"length {depth} over {{backward(L1), backward(L2), zero_grad, step, unfreeze w3}} (plus every history of that length with one mid-training freeze of w1 after a backward and before a step, and one 82-event run 'b S^40 B S^40' per configuration; every shorter history is a prefix and is "
                   "compared event by event): parameters w1 (float64, first gradient arrives late), w2 (float32, 2x2), w5 (0-d), frozen w3 and foreign w4; states = "
                   "(configuration, history prefix) pairs; after every event parameter values vs the transcribed PyTorch rules "
                   "(cross-validated against torch.optim at 1e-11), identity/dtype/shape/storage (4 configurations pass NumPy float64 scalars as hyper-parameters), frozen and foreign parameters byte-identical"}
    return {"level": "model_checking", "violations": viols, "coverage": cov,
            "assumptions": ["a gradient that exists only because zero_grad created it may be treated as absent (torch) or as g=0 "
                            "(synapgrad); either successor is accepted and the model continues from the one observed",
                            "lr fixed at 0.1; gradients come from two closed-form losses evaluated at the current parameters",
                            "torch.optim 2.x is the published rule (its docstring algorithm boxes were transcribed)"]}
