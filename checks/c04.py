"""C04 - leaf gradients accumulate exactly across any history of backward calls.

Explicit-state BFS over histories {build graph pieces over shared leaves, backward(any node or leaf, g)
plain or under retain_grads, retain_grad(node), zero via tensor/module/optimizer} on real Parameters,
in lock-step with a gradient ledger whose contributions come from forward-mode (dual number)
evaluation of the same program - independent of the engine's traversal."""
import numpy as np
from mc import harness, explorer

PV = np.array([1.5, -0.5]); QV = np.array([0.75, 2.0]); CV = np.array([-1.25, 0.5])
GS = {0: np.array([1.0, 1.0]), 1: np.array([0.5, -2.0])}
# node -> (operands, kind)
HUGE = np.array([1e308, 1e308])
BUILDS = {"big": (("p", "huge"), "mul"), "y1": (("p", "q"), "mul"), "h": (("p", "c"), "mul"), "y3": (("h", "h"), "mul"),
          "z": (("y1", "c"), "mul"), "z2": (("y1", "y3"), "add"), "w": (("q", "q"), "mul"), "s": (("y1", "y1"), "sum")}
ORDER = ["y1", "h", "y3", "z", "z2", "w", "big", "s"]     # s = y1.sum(): a one-element root (explicit seeds 1.0 and -2.5 as 0-d tensors)
GS0 = {0: 1.0, 1: -2.5}      # big = p * 1e308: with g = (0.5, -2) its gradient overflows to -inf

class World:
    def __init__(self):
        sg = self.sg = harness.load()
        harness.reset_modes(verify=False)
        nn = sg.nn
        class M(nn.Module):
            def __init__(s):
                super().__init__()
                s.p = nn.Parameter(sg.Tensor(PV.copy(), requires_grad=True))
                s.q = nn.Parameter(sg.Tensor(QV.copy(), requires_grad=True))
        self.mod = M()
        # lr = 0: a step leaves the values alone (so the forward-mode reference stays valid) but runs the whole update path
        self.opt = sg.optim.SGD(self.mod.parameters(), lr=0.0, weight_decay=0.5, maximize=True)   # no momentum: no hidden optimizer state, and no buffer that could overflow
        self.t = {"p": self.mod.p, "q": self.mod.q, "c": sg.Tensor(CV.copy()), "huge": sg.Tensor(HUGE.copy())}
        # forward-mode reference: value, d/dp, d/dq (all ops are element-wise -> diagonal Jacobians)
        self.dual = {"p": (PV, np.ones(2), np.zeros(2)), "q": (QV, np.zeros(2), np.ones(2)), "c": (CV, np.zeros(2), np.zeros(2)),
                     "huge": (HUGE, np.zeros(2), np.zeros(2))}
        self.acc = {"p": None, "q": None}        # ledger: None = never reached and never reset
        self.retained = set()
        self.gs = []                              # (caller-owned Tensor, byte snapshot)

    def enabled(self):
        ev = []
        for n in ORDER:
            if n not in self.t and all(o in self.t for o in BUILDS[n][0]):
                ev.append(("build", n))
        for n in ["p", "q"] + [x for x in ORDER if x in self.t]:
            for gi in (0, 1):
                ev.append(("bw", n, gi, False))
            ev.append(("bw", n, 1, True))
        for n in ORDER:
            if n in self.t and n not in self.retained:
                ev.append(("retain", n))
        # the caller hands a retained interior gradient back in as the upstream gradient of a node built on top of that interior
        # node (per-task gradients at a shared representation): the seed is whatever that .grad holds at the time of the call
        for src, roots in (("h", ("y3", "z2")), ("y1", ("z", "z2"))):
            if src in self.t and self._has_grad(src):
                for n in roots:
                    if n in self.t: ev.append(("bwfrom", n, src))
        ev += [("zero", "p"), ("zero", "q"), ("zero", "module"), ("zero", "optimizer")]
        # a leaf that is frozen for a while (requires_grad switched off and on again, as in staged fine-tuning): freezing by itself
        # is not a reset and keeps the gradient; a tensor-level reset issued while frozen is a reset like any other
        ev += [("zero_frozen", "p"), ("refreeze", "q")]
        if THOROUGH_EVENTS: ev += [("zero_frozen", "q"), ("refreeze", "p")]
        if all(a is None or np.all(np.isfinite(a)) for a in self.acc.values()):
            ev.append(("step",))      # an optimizer step reads gradients; it is not a reset and contributes nothing
        return ev

    def _has_grad(self, n):
        with harness.quiet():
            return self.t[n].grad is not None

    def apply(self, e, check=True):
        with harness.quiet():
            return self._apply(e, check)

    def _grad_bytes(self, n):
        g = self.t[n].grad
        return None if g is None else np.asarray(g.data).tobytes()

    def _apply(self, e, check):
        sg = self.sg
        bad = []
        def v(kind, detail): bad.append({"kind": kind, "detail": detail})
        before = {n: self._grad_bytes(n) for n in ("p", "q")}
        touched = set()
        if e[0] == "build":
            n = e[1]; (a, b), kind = BUILDS[n]
            if kind == "sum":
                self.t[n] = self.t[a].sum()
                va, pa, qa = self.dual[a]
                self.dual[n] = (va.sum(), pa, qa)        # d s / d p_i = d y1_i / d p_i (element-wise ops below): a row vector
            else:
                self.t[n] = self.t[a] * self.t[b] if kind == "mul" else self.t[a] + self.t[b]
                (va, pa, qa), (vb, pb, qb) = self.dual[a], self.dual[b]
                self.dual[n] = (va * vb, pa * vb + va * pb, qa * vb + va * qb) if kind == "mul" else (va + vb, pa + pb, qa + qb)
        elif e[0] == "bw":
            _, n, gi, under = e
            gval = np.asarray(GS0[gi]) if n == "s" else GS[gi]
            g = sg.Tensor(np.array(gval, dtype=np.float64))
            self.gs.append((g, np.asarray(g.data).tobytes()))
            try:
                if under:
                    with sg.retain_grads():
                        self.t[n].backward(g)
                else:
                    self.t[n].backward(g)
            except Exception as ex:
                v("backward-raised", f"{e}: {type(ex).__name__}: {ex}")
                return bad
            _, dp, dq = self.dual[n]
            for leaf, d in (("p", dp), ("q", dq)):
                if np.any(d != 0):
                    touched.add(leaf)
                    self.acc[leaf] = (self.acc[leaf] if self.acc[leaf] is not None else np.zeros(2)) + gval * d
        elif e[0] == "bwfrom":
            _, n, src = e
            g = self.t[src].grad
            gval = np.array(np.asarray(g.data), dtype=np.float64, copy=True)
            try:
                self.t[n].backward(g)
            except Exception as ex:
                v("backward-raised", f"{e}: {type(ex).__name__}: {ex}")
                return bad
            _, dp, dq = self.dual[n]
            for leaf, d in (("p", dp), ("q", dq)):
                if np.any(d != 0):
                    touched.add(leaf)
                    self.acc[leaf] = (self.acc[leaf] if self.acc[leaf] is not None else np.zeros(2)) + gval * d
        elif e[0] == "retain":
            self.t[e[1]].retain_grad(); self.retained.add(e[1])
        elif e[0] == "zero":
            w = e[1]
            if w == "p": self.mod.p.zero_(); touched.add("p"); self.acc["p"] = np.zeros(2)
            elif w == "q": self.mod.q.zero_(); touched.add("q"); self.acc["q"] = np.zeros(2)
            else:
                (self.mod if w == "module" else self.opt).zero_grad()
                touched |= {"p", "q"}; self.acc["p"] = np.zeros(2); self.acc["q"] = np.zeros(2)
        elif e[0] in ("zero_frozen", "refreeze"):
            leaf = self.t[e[1]]
            leaf.requires_grad = False
            if e[0] == "zero_frozen":
                leaf.zero_(); touched.add(e[1]); self.acc[e[1]] = np.zeros(2)
            leaf.requires_grad = True
            if not leaf.requires_grad: raise harness.HarnessError("requires_grad = True refused on a float leaf")
        elif e[0] == "step":
            self.opt.step()
            for leaf, val in (("p", PV), ("q", QV)):
                if not np.array_equal(np.asarray(self.t[leaf].data), val):
                    raise harness.HarnessError(f"lr=0 step changed the value of {leaf}")
        if not check:
            return bad
        for leaf in ("p", "q"):
            g = self.t[leaf].grad
            exp = self.acc[leaf]
            got = None if g is None else np.asarray(g.data, dtype=np.float64)
            if exp is None:
                if got is not None and np.any(got != 0):
                    v("leaf-grad-without-contribution", f"{leaf}.grad={got} but no backward reached it")
            else:
                if got is None:
                    if np.any(exp != 0):
                        v("leaf-grad-missing", f"{leaf}.grad is None, ledger {exp}")
                elif got.shape != exp.shape or not np.allclose(got, exp, rtol=1e-12, atol=1e-12, equal_nan=True):
                    kind = "leaf-root-not-accumulated" if (e[0] == "bw" and e[1] == leaf) else "leaf-grad-differs-from-ledger"
                    v(kind, f"after {e}: {leaf}.grad={got}, sum of contributions since last reset={exp}")
            if leaf not in touched and self._grad_bytes(leaf) != before[leaf]:
                v("unreachable-leaf-changed", f"after {e}: {leaf}.grad changed from {before[leaf] is not None and np.frombuffer(before[leaf])} although {leaf} is not reachable from the root")
        for k, (g, snap) in enumerate(self.gs):
            if np.asarray(g.data).tobytes() != snap:
                v("caller-gradient-mutated", f"after {e}: upstream gradient #{k} supplied by the caller changed to {np.asarray(g.data)}")
                break
        return bad

    def canon(self):
        with harness.quiet():
            nodes = tuple((n, n in self.retained, self._grad_bytes(n)) for n in ORDER if n in self.t)
            led = tuple(None if self.acc[l] is None else tuple(np.round(self.acc[l], 9)) for l in ("p", "q"))
            alias = []
            for n in ["p", "q"] + [x for x in ORDER if x in self.t]:
                g = self.t[n].grad
                if g is not None:
                    for k, (cg, _) in enumerate(self.gs[-3:]):
                        alias.append((n, k - len(self.gs[-3:]), bool(np.shares_memory(g.data, cg.data))))
            return (nodes, led, self._grad_bytes("p"), self._grad_bytes("q"), tuple(a for a in alias if a[2]))

THOROUGH_EVENTS = False

def make_world():
    return World()

def replay(case):
    w = World(); out = []
    for e in case["history"]:
        out = w.apply(tuple(e))
    return out

def run(tier, seed):
    global THOROUGH_EVENTS
    THOROUGH_EVENTS = tier == "thorough"
    depth = 6 if tier == "quick" else 7
    res = explorer.explore(make_world, depth)
    cov = {"states": res.states, "transitions": res.transitions, "traces_validated_against_impl": res.transitions,
           "samples": res.samples, "exhaustive": res.complete, "depth": res.max_depth, "level_sizes": res.level_sizes,
           "pruned_violating_transitions": res.pruned,
           "rule": f"all histories up to depth {depth} over: build y1=p*q, h=p*c, y3=h*h, z=y1*c, z2=y1+y3, w=q*q, s=y1.sum() (one-element root, 0-d seeds) on shared Parameters "
                   "p,q of one Module/optimizer; backward(root, g) for every existing node AND leaf as root, g in {(1,1),(0.5,-2)}, "
                   "plain or under retain_grads; backward(node, g = the .grad currently held by a retained interior node below it); retain_grad(node); p.zero_(), q.zero_(), module.zero_grad(), optimizer.zero_grad(); freeze-then-unfreeze of a leaf with or without a zero_() in between (quick: zero_ on p, plain on q; thorough: both on both); optimizer.step() of an SGD(lr=0, "
                   "weight decay, maximize) - reads gradients, must leave them alone. "
                   "After every event: .grad of p and q == ledger (sum of forward-mode contributions since last reset), unreachable "
                   "leaves byte-identical, every caller-owned g byte-identical"}
    if tier == "thorough":
        a = explorer.explore(make_world, 5, merge=False); b = explorer.explore(make_world, 5)
        cov["audit_unmerged_depth5"] = {"states": a.states, "transitions": a.transitions, "violation_kinds": sorted(a.violation_counts)}
        if sorted(a.violation_counts) != sorted(b.violation_counts):
            res.violations.append({"kind": "harness:merge-unsound", "detail": "unmerged audit differs", "case": {}})
    return {"level": "model_checking", "violations": res.violations, "coverage": cov,
            "assumptions": ["what a retained interior .grad shows after several backward calls is not asserted (latest or accumulated both fine)",
                            "a leaf that was never reached may show None or zeros"]}
