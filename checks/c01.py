"""C01 - backward of every tensor op yields the exact vector-Jacobian product.

For every case of the tensor-op lattice the library's full Jacobian (one backward per basis vector of
the output, so every upstream g is decided by linearity) is compared with the 4th-order numerical
Jacobian of the library's own float64 forward; ties of max/min are judged by the bracket test."""
import numpy as np
from mc import harness, engine, catalog_tensor as cat, gradcheck

def judge(case):
    arrays = cat.arrays_for(case)
    runner = lambda arrs, rg: cat.run_lib(case, arrs, rg)
    kinks = "ties" in (case.get("pats") or [])
    viol, info = gradcheck.check(runner, arrays, list(range(len(arrays))), case["op"], kinks=kinks)
    if info.get("accepted") and not viol and info.get("rows") is not None and any(a.ndim >= 2 and a.size > 1 for a in arrays):
        viol += gradcheck.check_layouts(lambda arrs, rg: cat.run_lib(case, arrs, rg, copy=False), arrays, list(range(len(arrays))),
                                        case["op"], info["rows"], gradcheck.LAYOUTS)
    if info.get("accepted") and not viol and info.get("rows") is not None:
        viol += gradcheck.check_interleaved(lambda arrs, rg: cat.run_lib(case, arrs, rg), arrays, list(range(len(arrays))), case["op"], info["rows"])
        viol += gradcheck.check_twice(lambda arrs, rg: cat.run_lib(case, arrs, rg), arrays, list(range(len(arrays))), case["op"], info["rows"])
        viol += gradcheck.check_freeze(lambda ts: cat.OPS[case["op"]].lib(harness.load(), ts, case.get("args") or {}), arrays, list(range(len(arrays))), case["op"], info["rows"])
    # the same Tensor object in several operand slots of ONE operation (x*x, concat([h, b, h]), x @ x, ...)
    n = len(arrays)
    pats = case.get("pats") or ["generic"] * n
    if info.get("accepted") and not viol and n >= 2 and not kinks:
        pairs = [(0, n - 1)] + ([(0, 1)] if n >= 3 else [])
        for (i, j) in pairs:
            if tuple(case["shapes"][i]) != tuple(case["shapes"][j]) or pats[i] != pats[j]: continue
            def shared(arrs, rg, i=i, j=j):
                sg = harness.load()
                red = [sg.Tensor(np.array(a, copy=True), requires_grad=bool(r)) for a, r in zip(arrs, rg or [False] * len(arrs))]
                full = red[:j] + [red[i]] + red[j:]
                return cat.OPS[case["op"]].lib(sg, full, case.get("args") or {}), red
            reduced = arrays[:j] + arrays[j + 1:]
            v2, _ = gradcheck.check(shared, reduced, list(range(len(reduced))), case["op"] + f"[operand {i} is operand {j}]", subsets=False)
            viol += v2
    # concat / stack take a Python list: the graph holds the operands it was BUILT from - a caller who re-uses the list
    # (reverse, clear, sliding window) between forward and backward does not redirect the gradient slices
    if case["op"] in ("concat", "stack") and info.get("accepted") and not viol and info.get("rows") is not None and n >= 1:
        sg = harness.load()
        ts = [sg.Tensor(np.array(a, copy=True), requires_grad=True) for a in arrays]
        for how in ("reverse", "clear", "replace"):
            for t in ts: t.zero_()
            lst = list(ts)
            try:
                out = getattr(sg, case["op"])(lst, case["args"]["dim"])
                if how == "reverse": lst.reverse()
                elif how == "clear": lst.clear()
                else: lst[0] = sg.Tensor(np.zeros_like(arrays[0]), requires_grad=True)
                from mc import values as _v
                g = _v.dense_g(out.shape)
                out.backward(sg.Tensor(np.asarray(g, dtype=out.dtype)))
                for k, t in enumerate(ts):
                    exp = info["rows"][k].T @ np.asarray(g, dtype=np.float64).reshape(-1)
                    if t.grad is None or not np.allclose(np.asarray(t.grad.data, dtype=np.float64).reshape(-1), exp, rtol=1e-9, atol=1e-11):
                        viol.append({"kind": f"{case['op']}:operand-list-mutated-after-forward", "detail": f"the list passed to {case['op']} was changed ({how}) after the "
                                     f"forward call; operand {k} then received a gradient that is not its slice of g"}); break
            except harness.HarnessError:
                raise
            except Exception as e:
                viol.append({"kind": f"{case['op']}:operand-list-mutated-after-forward", "detail": f"list {how} after forward: backward raised {type(e).__name__}: {str(e)[:80]}"})
            if viol: break
    nt = bool(info.get("accepted") and info.get("nonzero") and any(a.size > 1 for a in arrays))
    return {"nontrivial": nt, "outcome": "accepted" if info.get("accepted") else "rejected", "violations": viol}

def boundary_cases():
    """operands ON the boundary of the domain (exact zeros under sqrt, fractional / negative powers, zero denominators): the
    derivative is infinite or undefined there and finite differences say nothing, but the library's answer must still be THE
    limit value (inf / -inf / nan as torch autograd gives it) - not an arbitrary finite number"""
    out = []
    for s in ((), (3,), (2, 3)):
        for pat in ("nonneg0", "with_zeros", "zeros"):
            out.append({"op": "sqrt", "shapes": [list(s)], "args": {}, "pats": [pat], "boundary": True})
            for n in (0.5, 1.5, -1, -0.5, -2, 2, 3):
                out.append({"op": "pow", "shapes": [list(s)], "args": {"n": n}, "pats": [pat], "boundary": True})
            out.append({"op": "rdiv", "shapes": [list(s)], "args": {"c": 2.5}, "pats": [pat], "boundary": True})
            out.append({"op": "div", "shapes": [list(s), list(s)], "args": {}, "pats": ["generic", pat], "boundary": True})
            out.append({"op": "exp", "shapes": [list(s)], "args": {}, "pats": [pat], "boundary": True})
        # finite operands far from the origin: the gradient is huge but exact (g * exp(x)), never a clipped or saturated stand-in
        for op in ("exp", "neg", "sqrt_abs", "tanh", "sigmoid"):
            if op in cat.OPS: out.append({"op": op, "shapes": [list(s)], "args": {}, "pats": ["large"], "boundary": True})
    return out

def judge_boundary(case):
    sg = harness.load(); t = harness.torch()
    arrays = cat.arrays_for(case)
    viol = []
    for gname in ("ones", "dense"):
        try:
            out, ts = cat.run_lib(case, arrays, [True] * len(arrays))
            from mc import values as _v
            g = np.ones(out.shape) if gname == "ones" else np.asarray(_v.dense_g(out.shape))
            out.backward(sg.Tensor(np.asarray(g, dtype=out.dtype)))
            lg = [np.asarray(x.grad.data, dtype=np.float64) for x in ts]
        except harness.HarnessError:
            raise
        except Exception as e:
            return {"nontrivial": False, "outcome": "rejected", "violations": []}
        tt = [t.tensor(a, dtype=t.float64, requires_grad=True) for a in arrays]
        o = cat.OPS[case["op"]].ref(t, tt, case.get("args") or {})
        o.backward(t.from_numpy(np.asarray(g, dtype=np.float64)).reshape(o.shape))
        for k, (a, b) in enumerate(zip(lg, [x.grad.numpy() for x in tt])):
            if a.shape != b.shape or not np.allclose(a, b, rtol=1e-9, atol=1e-12, equal_nan=True):
                viol.append({"kind": f"{case['op']}:boundary-gradient", "detail": f"operand {k} = {np.asarray(arrays[k]).ravel()[:4]}..., upstream {gname}: library gradient "
                             f"{a.ravel()[:4]}, limit value (torch autograd) {b.ravel()[:4]}"})
                return {"nontrivial": True, "outcome": "boundary", "violations": viol}
    return {"nontrivial": True, "outcome": "boundary", "violations": viol}

def dispatch(case):
    return judge_boundary(case) if case.get("boundary") else judge(case)

def replay(case):
    with harness.quiet():
        return dispatch(case)["violations"]

def run(tier, seed):
    cases = [c for c in cat.cases(tier, "grad")] + boundary_cases()
    r = engine.run_cases(cases, dispatch)
    cov = {"evaluations": r["evaluations"], "distinct_nontrivial": r["distinct_nontrivial"],
           "rule": "every accepted case of the tensor-op lattice (broadcast pairs, matmul batch patterns, addmm, pow/rpow "
                   "exponents, index expressions incl. steps/ellipsis/newaxis/repeated indices, concat/stack/unbind, "
                   "reductions over every signed dim tuple x keepdims, squeeze/unsqueeze/reshape/movedim/transpose/flatten/"
                   "unfold over every argument); per case: backward for EVERY basis vector of the output vs 4th-order FD "
                   "Jacobian of the library's float64 forward (tol 1e-7), all-ones and dense g (linearity), every non-empty "
                   "requires_grad subset; the same Tensor object in two operand slots of one operation (same-shaped slots); ties by one-sided bracket test; on the boundary of the domain (exact zeros under sqrt / fractional and negative powers / as denominators) the gradient is the limit value torch autograd gives (inf, -inf, nan), bitwise kind; non-trivial = accepted, Jacobian has a non-zero "
                   "entry, some operand has >1 element",
           "samples": r["samples"], "exhaustive": True, "outcomes": r["outcomes"]}
    return {"level": "exploration", "violations": r["violations"], "coverage": cov,
            "assumptions": ["operand values are a finite separated alphabet (completeness in x is not claimed); "
                            "completeness in g follows from linearity of the VJP and is itself checked",
                            "the derivative is that of the function the library's own forward computes (FD of the forward)"]}
