#!/bin/bash
# usage: tools/with_patch.sh <patch.diff> <ID> [<ID>...]   -- apply a patch to a scratch copy of /repo under /dev/shm,
# run the quick checks against it (VERIF_REPO), delete the copy.  Evidence/replays are written to a scratch dir, not /verif.
set -u
PATCH=$(realpath "$1"); shift
D=$(mktemp -d /dev/shm/mut.XXXXXX)
rsync -a --exclude .git /repo/ "$D/repo/"
( cd "$D/repo" && patch -p1 -s < "$PATCH" ) || { echo "PATCH-FAILED"; rm -rf "$D"; exit 3; }
rc=0
for id in "$@"; do
  out=$(cd /verif && VERIF_REPO="$D/repo" /venv/bin/python -m mc.run "$id" --tier ${TIER:-quick} --no-evidence 2>&1)
  n=$(echo "$out" | grep -c '^VIOLATION')
  h=$(echo "$out" | grep -c 'HARNESS-ERROR')
  echo "$id: violations=$n harness_errors=$h :: $(echo "$out" | grep -m2 '^  ' | cut -c1-220 | tr '\n' '|')"
done
rm -rf "$D"
rm -rf /verif/replays/*/ 2>/dev/null
exit 0
