#!/usr/bin/env python3
"""python3-vt tools/validate_evidence.py : validate every evidence file against the schema."""
import json, glob, sys, jsonschema
sch = json.load(open('/root/.vp/EVIDENCE.schema.json'))
bad = 0
for f in sorted(glob.glob('/verif/evidence/*.json')):
    try:
        jsonschema.validate(json.load(open(f)), sch); print('ok ', f)
    except Exception as e:
        bad += 1; print('BAD', f, str(e)[:200])
sys.exit(1 if bad else 0)
