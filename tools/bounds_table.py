#!/usr/bin/env python3
"""usage: tools/bounds_table.py <thorough-log>  -> markdown rows for DESIGN.md section 10 (quick numbers from evidence/*.json)"""
import json, re, sys, os
root = os.path.dirname(os.path.dirname(os.path.abspath(__file__)))
th = {}
if len(sys.argv) > 1:
    for line in open(sys.argv[1]):
        m = re.match(r"\[(C\d\d)\] tier=thorough .* wall=([\d.]+)s coverage=(\{.*)", line)
        if m:
            # the log line may be truncated: pick the counters out by name (first occurrence = top level)
            cov = {}
            for key in ("states", "transitions", "evaluations"):
                mm = re.search(r"'%s': (\d+)" % key, m.group(3))
                if mm: cov[key] = int(mm.group(1))
            th[m.group(1)] = (float(m.group(2)), cov)      # a later line for the same id (a later run) replaces an earlier one
def fmt(cov):
    if "states" in cov and "transitions" in cov and cov.get("states"):
        s = f"{cov['states']:,} states / {cov['transitions']:,} transitions".replace(",", " ")
        if "evaluations" in cov: s += f" ({cov['evaluations']:,} runs)".replace(",", " ")
        return s
    return f"{cov.get('evaluations', 0):,} cases".replace(",", " ")
print("| id | level | quick (cases or states, wall) | thorough (cases or states, wall) |")
print("|----|-------|-------------------------------|----------------------------------|")
for i in range(1, 21):
    pid = f"C{i:02d}"
    e = json.load(open(os.path.join(root, "evidence", pid + ".json")))
    cov = e.get("coverage", e)
    wall = e.get("wall_s") or 0
    q = f"{fmt(cov)}, {float(wall):.0f} s"
    t = f"{fmt(th[pid][1])}, {th[pid][0]:.0f} s" if pid in th else "-"
    print(f"| {pid} | {e.get('level', '')} | {q} | {t} |")
