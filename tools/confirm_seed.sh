#!/bin/bash
# usage: tools/confirm_seed.sh <seed-id> <dir with patch.diff demo.py meta.json>
# Confirms a seeded change independently: patch applies to /repo HEAD (scratch copy), the pinned baseline still passes with it,
# the demo passes without and fails with the patch, and records which quick checks fire.  Stores it under /verif/seeded/<seed-id>/.
set -u
ID=$1; SRC=$2
D=$(mktemp -d /dev/shm/seed.XXXXXX)
rsync -a --exclude .git /repo/ "$D/clean/"; rsync -a --exclude .git /repo/ "$D/mut/"
( cd "$D/mut" && patch -p1 -s < "$SRC/patch.diff" ) || { echo "$ID: PATCH-FAILED"; rm -rf "$D"; exit 3; }
SYNAPGRAD_PATH="$D/clean" /venv/bin/python "$SRC/demo.py" > "$D/demo_clean.log" 2>&1; rc_clean=$?
SYNAPGRAD_PATH="$D/mut" /venv/bin/python "$SRC/demo.py" > "$D/demo_mut.log" 2>&1; rc_mut=$?
/verif/tools/baseline.sh "$D/mut" > "$D/baseline.log" 2>&1; rc_base=$?
checks=""
for id in "${@:3}"; do
  out=$(cd /verif && VERIF_REPO="$D/mut" /venv/bin/python -m mc.run "$id" --tier quick --no-evidence 2>&1)
  n=$(echo "$out" | grep -c '^VIOLATION'); h=$(echo "$out" | grep -c 'HARNESS-ERROR')
  kinds=$(echo "$out" | grep '^  ' | sed 's/^  \([^ ]*\):.*/\1/' | tr '\n' ',' )
  checks="$checks $id:violations=$n,harness=$h,kinds=[$kinds]"
done
rm -rf /verif/replays/*/ 2>/dev/null
echo "$ID: demo_clean_rc=$rc_clean demo_mut_rc=$rc_mut baseline_rc=$rc_base ($(tail -1 $D/baseline.log | head -c 80)) checks:$checks"
if [ $rc_clean -eq 0 ] && [ $rc_mut -ne 0 ] && [ $rc_base -eq 0 ]; then
  mkdir -p /verif/seeded/$ID && cp "$SRC/patch.diff" "$SRC/demo.py" /verif/seeded/$ID/
  /venv/bin/python - "$ID" "$SRC" "$checks" <<'PY'
import json, sys, subprocess
sid, src, checks = sys.argv[1:4]
try: meta = json.load(open(src + '/meta.json'))
except Exception: meta = {}
meta.update({"seed_id": sid, "confirmed": {"repo_head": subprocess.run(['git','-C','/repo','rev-parse','--short','HEAD'],capture_output=True,text=True).stdout.strip(),
  "baseline_with_patch": "92/92 stable tests pass (tools/baseline.sh on a scratch copy)", "demo_without_patch": "exit 0", "demo_with_patch": "exit != 0",
  "quick_checks": checks.strip()}})
json.dump(meta, open(f'/verif/seeded/{sid}/meta.json','w'), indent=1)
PY
  echo "$ID: KEPT"
else
  echo "$ID: REJECTED"; tail -5 "$D/demo_clean.log" "$D/demo_mut.log" "$D/baseline.log"
fi
rm -rf "$D"
