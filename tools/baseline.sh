#!/bin/bash
# Run the repository's pinned baseline in a given tree (default /repo) and compare with BASELINE.json's stable_pass list.
REPO=${1:-/repo}
OUT=$(mktemp /dev/shm/baseline.XXXXXX.xml)
cd "$REPO" && /venv/bin/python -m pytest -q -p no:cacheprovider --timeout=900 --continue-on-collection-errors --junitxml="$OUT" >/dev/shm/baseline.log 2>&1
/venv/bin/python - "$OUT" <<'PY'
import sys, json, xml.etree.ElementTree as ET
base = json.load(open('/root/.vp/BASELINE.json'))
t = ET.parse(sys.argv[1]).getroot()
ok = set()
for tc in t.iter('testcase'):
    if not any(c.tag in ('failure', 'error', 'skipped') for c in tc):
        ok.add(f"{tc.get('classname')}::{tc.get('name')}")
missing = [x for x in base['stable_pass'] if x not in ok]
print(f"baseline: {len(base['stable_pass']) - len(missing)}/{len(base['stable_pass'])} stable tests pass")
for m in missing: print("  MISSING", m)
sys.exit(1 if missing else 0)
PY
rc=$?; rm -f "$OUT"; exit $rc
