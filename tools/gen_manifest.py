#!/usr/bin/env python3
"""Regenerate MANIFEST.json from the table below (keeps it valid and consistent)."""
import json, os, subprocess
ROOT = os.path.dirname(os.path.dirname(os.path.abspath(__file__)))
PY = "/venv/bin/python"
CHECKS = {
 "C01": ("exploration", "3/C01", "bounded-exhaustive enumeration of the tensor-op argument lattice; per case full Jacobian (backward per output basis vector) vs FD of the library forward",
         "Every accepted case of a finite lattice of operand shapes and arguments is executed on the real code; each upstream gradient is decided by linearity from the output basis. Operand values are a finite separated alphabet."),
 "C02": ("exploration", "3/C02", "bounded-exhaustive enumeration of the nn-op configuration lattice; per case full Jacobian vs FD of the library forward, bracket test at kinks",
         "Every accepted configuration (geometry grid, modes, reductions, label vectors) is executed; all basis upstream gradients. Values are a finite alphabet."),
 "C05": ("exploration", "3/C05", "bounded-exhaustive enumeration of tensor-op arguments (accept and reject side) against torch/NumPy reference semantics",
         "torch 2.x / NumPy are trusted as the mirrored definition."),
 "C06": ("exploration", "3/C06", "bounded-exhaustive enumeration of nn configurations against torch.nn.functional and definitional loop nests",
         "torch.nn.functional trusted; definitional references cross-validated against it on every case torch accepts."),
 "C03": ("model_checking", "3/C03", "exhaustive enumeration of all typed straight-line programs up to n op applications on the real engine against a forward-mode reference; invocation-count monitors; all construction orders",
         "Program space bounded by n; leaf values fixed; forward-mode reference is independent of the engine's traversal."),
 "C04": ("model_checking", "3/C04", "explicit-state BFS over build/backward/retain/zero histories on real Parameters in lock-step with a forward-mode gradient ledger",
         "All histories up to the depth bound; contributions come from dual-number evaluation independent of the engine."),
 "C07": ("model_checking", "3/C07", "explicit-state BFS over context/tensor event histories on the real library in lock-step with a stack-machine model",
         "All histories up to the depth bound over a finite event alphabet; states merged on model + observable library state (audited unmerged in the thorough tier)."),
 "C08": ("model_checking", "3/C08", "exhaustive enumeration of all {backward,backward,zero_grad,step} histories x hyper-parameter lattice on the real optimizers in lock-step with the transcribed PyTorch rules and torch.optim",
         "torch.optim is the published rule; one documented point of specification nondeterminism (zero_grad-created gradients) is modelled as a set of admissible successors."),
 "C09": ("exploration", "3/C09", "exhaustive sweep of the float32 domain |x| <= 1e4 (thorough: every bit pattern; quick: quantised + threshold neighbourhoods) and of all logit rows over a grid, against stable float64 closed forms",
         "Closed forms validated against mpmath; accuracy criterion 16 eps32 max(1,|x|)."),
 "C10": ("exploration", "3/C10", "bounded-exhaustive enumeration of both catalogues x operand dtype x upstream-gradient dtype; dtype/shape observation",
         "All operands of a case share one dtype."),
 "C11": ("exploration", "3/C11", "bounded-exhaustive enumeration of both catalogues x operand memory layouts (separate / arena views / overlapping views) with byte snapshots",
         "History-dependent aliasing is decided in the C04 explorer."),
 "C12": ("model_checking", "3/C12", "explicit-state BFS over attribute-assignment/registration/mode histories on real Modules in lock-step with a registry model; all Sequentials of <= 3 layers",
         "Cycles excluded; two registration-order conventions accepted."),
 "C13": ("model_checking", "3/C13", "exhaustive enumeration of all train/eval/forward histories x constructor options; Dropout branches over every random answer vector; BatchNorm in lock-step with torch.nn.BatchNorm",
         "NumPy generator distribution trusted; torch.nn.BatchNorm is the documented rule."),
 "C14": ("exploration", "3/C14", "bounded-exhaustive enumeration of the operand lattices of 16 identities; differential comparison of values and all basis gradients of both sides",
         "Moderate logits for the sigmoid/BCE pair; log()'s 1e-12 guard kept below tolerance by the operand range."),
 "C15": ("exploration", "3/C15", "bounded-exhaustive enumeration of initialiser configurations under a scripted random source that recovers bounds/mean/std exactly",
         "NumPy's generator distribution is trusted; parameters handed to it and the in-place contract are decided."),
 "C16": ("exploration", "3/C16", "bounded-exhaustive enumeration of the 2-d geometry lattice; bitwise agreement of variants; adjointness by full operator matrices",
         "Small-integer data make sums exact; bilinearity extends basis agreement to all x, y."),
 "C17": ("exploration", "3/C17", "program-shape x size ladder executed on the real engine under the default recursion limit with invocation counting and weak-reference liveness",
         "Depths up to 5 000 (quick) / 50 000 (thorough)."),
 "C18": ("exploration", "3/C18", "exhaustive enumeration of dataset lengths x fractions x every shuffle permutation (scripted) x batch sizes x transforms x label sequences against an arithmetic model",
         "All permutations for n <= 4/5; real seeded shuffles beyond."),
 "C19": ("model_checking", "3/C19", "exhaustive enumeration of random-consuming programs x seeds, re-run in process and in fresh interpreters across PYTHONHASHSEED values and allocation layouts; scripted random source",
         "Cross-machine reproducibility is out of reach."),
 "C20": ("model_checking", "3/C20", "exhaustive enumeration of Trainer configurations; externally monitored call trace checked against the protocol automaton of the statement",
         "Loaders with zero batches excluded; batch size 4."),
}
def main():
    checks = []
    for pid, (level, ref, tech, note) in sorted(CHECKS.items()):
        checks.append({
            "property_id": pid,
            "quick_cmd": f"{PY} -m mc.run {pid} --tier quick",
            "thorough_cmd": f"{PY} -m mc.run {pid} --tier thorough",
            "evidence_file": f"/verif/evidence/{pid}.json",
            "replay_cmd_template": f"{PY} -m mc.run {pid} --replay {{path}}",
            "engine": "mc",
            "level_claimed": {"category": level, "text": tech, "design_ref": f"DESIGN.md section {ref}"},
            "level_note": note,
            "technique": "model checking: " + tech,
        })
    props = [json.loads(l)["id"] for l in open(os.path.join(ROOT, "properties.jsonl"))]
    na = [{"property_id": p, "reason": "check not built yet (work in progress; every property is planned to be claimed)"} for p in props if p not in CHECKS]
    fixes = subprocess.run(["git", "-C", "/repo", "log", "--format=%h", "--grep=^fix:"], capture_output=True, text=True).stdout.split()
    m = {"version": 1,
         "setup_cmd": "true",
         "hooks": {"guard": "SYNAPGRAD_VERIF", "enable": "no source hooks are needed: every observation is made from outside the library (public attributes, wrappers installed by the harness, patched numpy.random entry points); the harness sets SYNAPGRAD_VERIF=1 for completeness",
                   "baseline_off_cmd": "cd /repo && /venv/bin/python -m pytest -ra -q -p no:cacheprovider --timeout=900 --continue-on-collection-errors",
                   "source_commits": [], "add_only": True},
         "engines": [{"name": "mc", "path": "/verif/mc", "serves_properties": sorted(CHECKS),
                      "kind_free_text": "bounded-exhaustive lattice engine + explicit-state history explorer on the real implementation, reference models in Python run in lock-step"}],
         "checks": checks, "not_applicable": na,
         "notes": "Genuine defects repaired in /repo as 'fix:' commits are listed in known_findings.json ('fixed' lines); open findings in the same file."}
    json.dump(m, open(os.path.join(ROOT, "MANIFEST.json"), "w"), indent=1)
    print("checks:", len(checks), "not_applicable:", len(na))
if __name__ == "__main__":
    main()
