#!/bin/bash
# run every kept seeded change against the checks recorded for it (quick tier); prints one line per (seed, check)
cd /verif
for d in seeded/*/; do
  id=$(basename $d)
  ids=$(/venv/bin/python - "$d/meta.json" <<'PY'
import json,sys,re
m=json.load(open(sys.argv[1]))
print(" ".join(sorted(set(re.findall(r"(C\d\d):violations=[1-9]", m.get("confirmed",{}).get("quick_checks",""))))))
PY
)
  [ -z "$ids" ] && ids=$(echo $id | cut -c1-3 | tr a-z A-Z)
  if grep -q '"neutralised"' $d/meta.json; then echo "== $id -> neutralised by a later fix (see meta.json), skipped"; continue; fi
  echo "== $id -> $ids"
  tools/with_patch.sh $d/patch.diff $ids | cut -c1-160
done
